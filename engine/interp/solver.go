package interp

// One long-lived solver process per worker (z3 -in), incremental push/pop.
// No set-logic (z3 4.8.12 silently drops assertions it cannot parse under a
// restrictive logic); every "(error" line makes the current query inconclusive.

import (
	"bufio"
	"fmt"
	"io"
	"os/exec"
	"strconv"
	"strings"
	"time"
)

type SatResult int

const (
	Unsat SatResult = iota
	Sat
	Unknown
)

func (r SatResult) String() string {
	return [...]string{"unsat", "sat", "unknown"}[r]
}

type solverLevel struct {
	ids   []int64
	names []string
}

type Solver struct {
	cmd    *exec.Cmd
	in     io.WriteCloser
	out    *bufio.Reader
	buf    strings.Builder
	levels []solverLevel
	defd   map[int64]bool
	decl   map[string]bool

	Queries  [3]int
	Time     time.Duration
	Errors   int
	LogW     io.Writer // optional transcript
	bin      string
	args     []string
	lastErr  string
	timeout  int
}

func NewSolver(bin string, args ...string) (*Solver, error) {
	s := &Solver{bin: bin, args: args}
	if err := s.start(); err != nil {
		return nil, err
	}
	return s, nil
}

func (s *Solver) start() error {
	cmd := exec.Command(s.bin, s.args...)
	in, err := cmd.StdinPipe()
	if err != nil {
		return err
	}
	out, err := cmd.StdoutPipe()
	if err != nil {
		return err
	}
	cmd.Stderr = nil
	if err := cmd.Start(); err != nil {
		return err
	}
	s.cmd, s.in, s.out = cmd, in, bufio.NewReaderSize(out, 1<<16)
	s.levels = []solverLevel{{}}
	s.defd = map[int64]bool{}
	s.decl = map[string]bool{}
	s.timeout = -1
	s.send("(set-option :print-success false)\n(set-option :produce-models true)\n")
	return nil
}

func (s *Solver) Close() {
	if s.cmd != nil {
		s.in.Close()
		s.cmd.Process.Kill()
		s.cmd.Wait()
		s.cmd = nil
	}
}

func (s *Solver) send(cmd string) {
	if s.LogW != nil {
		io.WriteString(s.LogW, cmd)
	}
	io.WriteString(s.in, cmd)
}

func (s *Solver) Depth() int { return len(s.levels) - 1 }

func (s *Solver) Push() {
	s.levels = append(s.levels, solverLevel{})
	s.send("(push 1)\n")
}

func (s *Solver) Pop(n int) {
	if n <= 0 {
		return
	}
	for i := 0; i < n; i++ {
		l := s.levels[len(s.levels)-1]
		for _, id := range l.ids {
			delete(s.defd, id)
		}
		for _, nm := range l.names {
			delete(s.decl, nm)
		}
		s.levels = s.levels[:len(s.levels)-1]
	}
	s.send(fmt.Sprintf("(pop %d)\n", n))
}

func (s *Solver) noteID(id int64) {
	s.defd[id] = true
	l := &s.levels[len(s.levels)-1]
	l.ids = append(l.ids, id)
}

func (s *Solver) noteName(n string) {
	s.decl[n] = true
	l := &s.levels[len(s.levels)-1]
	l.names = append(l.names, n)
}

// ref returns the SMT text that denotes t, emitting definitions as needed.
func (s *Solver) ref(t *Term) string {
	switch t.op {
	case OpConst:
		return constString(t)
	case OpVar:
		n := smtName(t.name)
		if !s.decl[n] {
			s.send(fmt.Sprintf("(declare-const %s %s)\n", n, sortString(t.w)))
			s.noteName(n)
		}
		return n
	}
	if s.defd[t.id] {
		return "t" + strconv.FormatInt(t.id, 10)
	}
	var body string
	switch t.op {
	case OpNot:
		if t.w == 0 {
			body = "(not " + s.ref(t.a) + ")"
		} else {
			body = "(bvnot " + s.ref(t.a) + ")"
		}
	case OpAnd, OpOr, OpXor:
		var nm string
		if t.w == 0 {
			nm = map[Op]string{OpAnd: "and", OpOr: "or", OpXor: "xor"}[t.op]
		} else {
			nm = map[Op]string{OpAnd: "bvand", OpOr: "bvor", OpXor: "bvxor"}[t.op]
		}
		body = "(" + nm + " " + s.ref(t.a) + " " + s.ref(t.b) + ")"
	case OpNeg:
		body = "(bvneg " + s.ref(t.a) + ")"
	case OpIte:
		body = "(ite " + s.ref(t.a) + " " + s.ref(t.b) + " " + s.ref(t.c) + ")"
	case OpZExt:
		body = fmt.Sprintf("((_ zero_extend %d) %s)", t.w-t.a.w, s.ref(t.a))
	case OpSExt:
		body = fmt.Sprintf("((_ sign_extend %d) %s)", t.w-t.a.w, s.ref(t.a))
	case OpExtract:
		body = fmt.Sprintf("((_ extract %d %d) %s)", t.k>>8, t.k&0xff, s.ref(t.a))
	case OpUF:
		n := smtName("uf_" + t.name)
		if !s.decl[n] {
			var sorts []string
			for _, x := range t.xs {
				sorts = append(sorts, sortString(x.w))
			}
			s.send(fmt.Sprintf("(declare-fun %s (%s) %s)\n", n, strings.Join(sorts, " "), sortString(t.w)))
			s.noteName(n)
		}
		if len(t.xs) == 0 {
			body = n
		} else {
			var as []string
			for _, x := range t.xs {
				as = append(as, s.ref(x))
			}
			body = "(" + n + " " + strings.Join(as, " ") + ")"
		}
	default:
		nm, ok := opNames[t.op]
		if !ok {
			panic(fmt.Sprintf("solver: unknown op %d", t.op))
		}
		body = "(" + nm + " " + s.ref(t.a) + " " + s.ref(t.b) + ")"
	}
	name := "t" + strconv.FormatInt(t.id, 10)
	s.send(fmt.Sprintf("(define-fun %s () %s %s)\n", name, sortString(t.w), body))
	s.noteID(t.id)
	return name
}

func (s *Solver) Assert(t *Term) {
	r := s.ref(t)
	s.send("(assert " + r + ")\n")
}

func (s *Solver) readLine() (string, error) {
	line, err := s.out.ReadString('\n')
	return strings.TrimRight(line, "\r\n"), err
}

// Check runs (check-sat) with the given soft timeout.
func (s *Solver) Check(timeoutMs int) SatResult {
	if timeoutMs != s.timeout {
		s.send(fmt.Sprintf("(set-option :timeout %d)\n", timeoutMs))
		s.timeout = timeoutMs
	}
	t0 := time.Now()
	s.send("(check-sat)\n")
	res := Unknown
	sawErr := false
	for {
		line, err := s.readLine()
		if err != nil {
			s.lastErr = "solver died: " + err.Error()
			s.Errors++
			res = Unknown
			break
		}
		if strings.HasPrefix(line, "(error") {
			sawErr = true
			s.lastErr = line
			s.Errors++
			continue
		}
		switch line {
		case "sat":
			res = Sat
		case "unsat":
			res = Unsat
		case "unknown", "timeout":
			res = Unknown
		default:
			continue
		}
		break
	}
	if sawErr {
		res = Unknown
	}
	s.Time += time.Since(t0)
	s.Queries[res]++
	return res
}

// GetValues returns the model values of ts (after a Sat answer).
func (s *Solver) GetValues(ts []*Term) ([]uint64, error) {
	out := make([]uint64, len(ts))
	for i, t := range ts {
		if t.isConst() {
			out[i] = t.k
			continue
		}
		r := s.ref(t)
		s.send("(get-value (" + r + "))\n")
		// response: ((name value)) possibly over several lines
		var sb strings.Builder
		depth := 0
		started := false
		for {
			line, err := s.readLine()
			if err != nil {
				return nil, err
			}
			if strings.HasPrefix(line, "(error") {
				s.Errors++
				s.lastErr = line
				return nil, fmt.Errorf("get-value: %s", line)
			}
			sb.WriteString(line)
			sb.WriteByte(' ')
			for _, ch := range line {
				if ch == '(' {
					depth++
					started = true
				} else if ch == ')' {
					depth--
				}
			}
			if started && depth <= 0 {
				break
			}
		}
		v, err := parseValue(sb.String())
		if err != nil {
			return nil, err
		}
		out[i] = v
	}
	return out, nil
}

func parseValue(resp string) (uint64, error) {
	// find last token before the closing "))"
	resp = strings.TrimSpace(resp)
	resp = strings.TrimRight(resp, ") ")
	idx := strings.LastIndexAny(resp, " (")
	tok := resp[idx+1:]
	switch {
	case tok == "true":
		return 1, nil
	case tok == "false":
		return 0, nil
	case strings.HasPrefix(tok, "#x"):
		return strconv.ParseUint(tok[2:], 16, 64)
	case strings.HasPrefix(tok, "#b"):
		return strconv.ParseUint(tok[2:], 2, 64)
	}
	// (_ bv10 32)
	if i := strings.LastIndex(resp, "(_ bv"); i >= 0 {
		f := strings.Fields(resp[i+5:])
		return strconv.ParseUint(f[0], 10, 64)
	}
	return 0, fmt.Errorf("cannot parse solver value %q", resp)
}

// GetVarValues returns the model values of variables (one round trip).
func (s *Solver) GetVarValues(vars []*Term) ([]uint64, error) {
	if len(vars) == 0 {
		return nil, nil
	}
	var sb strings.Builder
	sb.WriteString("(get-value (")
	for _, v := range vars {
		sb.WriteString(s.ref(v))
		sb.WriteByte(' ')
	}
	sb.WriteString("))\n")
	s.send(sb.String())
	var resp strings.Builder
	depth := 0
	started := false
	for {
		line, err := s.readLine()
		if err != nil {
			return nil, err
		}
		if strings.HasPrefix(line, "(error") {
			s.Errors++
			s.lastErr = line
			return nil, fmt.Errorf("get-value: %s", line)
		}
		resp.WriteString(line)
		resp.WriteByte(' ')
		inq := false
		for _, ch := range line {
			if ch == '|' {
				inq = !inq
			}
			if inq {
				continue
			}
			if ch == '(' {
				depth++
				started = true
			} else if ch == ')' {
				depth--
			}
		}
		if started && depth <= 0 {
			break
		}
	}
	// parse ((name val) (name val) ...): values are #x.., #b.., true, false
	out := make([]uint64, 0, len(vars))
	txt := resp.String()
	i := 0
	for len(out) < len(vars) {
		// find next value token: skip the name (possibly quoted)
		j := strings.IndexByte(txt[i:], '(')
		if j < 0 {
			break
		}
		i += j + 1
		// skip whitespace and nested opening paren of the list
		for i < len(txt) && (txt[i] == ' ' || txt[i] == '(') {
			i++
		}
		if i < len(txt) && txt[i] == '|' {
			k := strings.IndexByte(txt[i+1:], '|')
			i += k + 2
		} else {
			for i < len(txt) && txt[i] != ' ' {
				i++
			}
		}
		for i < len(txt) && txt[i] == ' ' {
			i++
		}
		k := i
		for k < len(txt) && txt[k] != ')' && txt[k] != ' ' {
			k++
		}
		tok := txt[i:k]
		var v uint64
		var err error
		switch {
		case tok == "true":
			v = 1
		case tok == "false":
			v = 0
		case strings.HasPrefix(tok, "#x"):
			v, err = strconv.ParseUint(tok[2:], 16, 64)
		case strings.HasPrefix(tok, "#b"):
			v, err = strconv.ParseUint(tok[2:], 2, 64)
		default:
			err = fmt.Errorf("unexpected value token %q in %q", tok, txt)
		}
		if err != nil {
			return nil, err
		}
		out = append(out, v)
		i = k
	}
	if len(out) != len(vars) {
		return nil, fmt.Errorf("get-value: parsed %d of %d values", len(out), len(vars))
	}
	return out, nil
}
