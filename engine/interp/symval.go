package interp

// Symbolic scalar values and strings with symbolic bytes.
//
// Concrete values keep the native representation of go/ssa/interp (bool, int,
// uint8, ..., string). A value that depends on a solver variable is a sym
// (term + Go basic kind). A string some of whose bytes are symbolic is an sstr
// (concrete length, each element a uint8 or a sym of kind Uint8).

import (
	"fmt"
	"go/token"
	"go/types"
)

type sym struct {
	t *Term
	k types.BasicKind
}

type sstr []value // elements: uint8 or sym{Uint8}

func kindWidth(k types.BasicKind) uint8 {
	switch k {
	case types.Bool:
		return 0
	case types.Int8, types.Uint8:
		return 8
	case types.Int16, types.Uint16:
		return 16
	case types.Int32, types.Uint32:
		return 32
	case types.Int, types.Uint, types.Int64, types.Uint64, types.Uintptr:
		return 64
	}
	panic(unsupported{fmt.Sprintf("kindWidth: kind %d", k)})
}

func kindSigned(k types.BasicKind) bool {
	switch k {
	case types.Int, types.Int8, types.Int16, types.Int32, types.Int64:
		return true
	}
	return false
}

// scalarKind returns the basic kind of a concrete scalar value.
func scalarKind(v value) (types.BasicKind, bool) {
	switch v.(type) {
	case bool:
		return types.Bool, true
	case int:
		return types.Int, true
	case int8:
		return types.Int8, true
	case int16:
		return types.Int16, true
	case int32:
		return types.Int32, true
	case int64:
		return types.Int64, true
	case uint:
		return types.Uint, true
	case uint8:
		return types.Uint8, true
	case uint16:
		return types.Uint16, true
	case uint32:
		return types.Uint32, true
	case uint64:
		return types.Uint64, true
	case uintptr:
		return types.Uintptr, true
	case sym:
		return v.(sym).k, true
	}
	return 0, false
}

// toTerm converts a scalar (concrete or symbolic) to a term.
func toTerm(v value) *Term {
	switch v := v.(type) {
	case sym:
		return v.t
	case bool:
		return boolConst(v)
	case int:
		return bvConst(64, uint64(v))
	case int8:
		return bvConst(8, uint64(v))
	case int16:
		return bvConst(16, uint64(v))
	case int32:
		return bvConst(32, uint64(v))
	case int64:
		return bvConst(64, uint64(v))
	case uint:
		return bvConst(64, uint64(v))
	case uint8:
		return bvConst(8, uint64(v))
	case uint16:
		return bvConst(16, uint64(v))
	case uint32:
		return bvConst(32, uint64(v))
	case uint64:
		return bvConst(64, v)
	case uintptr:
		return bvConst(64, uint64(v))
	}
	panic(unsupported{fmt.Sprintf("toTerm: %T", v)})
}

// mkSym wraps a term as a value of kind k; constant terms become native values.
func mkSym(t *Term, k types.BasicKind) value {
	if t.isConst() {
		return constOfKind(t.k, t.w, k)
	}
	if kindWidth(k) != t.w {
		panic(fmt.Sprintf("mkSym: width %d for kind %d", t.w, k))
	}
	return sym{t, k}
}

func constOfKind(v uint64, w uint8, k types.BasicKind) value {
	switch k {
	case types.Bool:
		return v&1 == 1
	case types.Int:
		return int(v)
	case types.Int8:
		return int8(v)
	case types.Int16:
		return int16(v)
	case types.Int32:
		return int32(v)
	case types.Int64:
		return int64(v)
	case types.Uint:
		return uint(v)
	case types.Uint8:
		return uint8(v)
	case types.Uint16:
		return uint16(v)
	case types.Uint32:
		return uint32(v)
	case types.Uint64:
		return v
	case types.Uintptr:
		return uintptr(v)
	}
	panic(fmt.Sprintf("constOfKind: kind %d", k))
}

func isSym(v value) bool {
	_, ok := v.(sym)
	return ok
}

// ---- strings ---------------------------------------------------------------

func isStr(v value) bool {
	switch v.(type) {
	case string, sstr:
		return true
	}
	return false
}

func strLen(v value) int {
	switch v := v.(type) {
	case string:
		return len(v)
	case sstr:
		return len(v)
	}
	panic(fmt.Sprintf("strLen: %T", v))
}

func strByte(v value, i int) value {
	switch v := v.(type) {
	case string:
		return v[i]
	case sstr:
		return v[i]
	}
	panic(fmt.Sprintf("strByte: %T", v))
}

func strBytes(v value) []value {
	switch v := v.(type) {
	case string:
		r := make([]value, len(v))
		for i := 0; i < len(v); i++ {
			r[i] = v[i]
		}
		return r
	case sstr:
		r := make([]value, len(v))
		copy(r, v)
		return r
	}
	panic(fmt.Sprintf("strBytes: %T", v))
}

// mkStr builds a string value from bytes; all-concrete becomes a native string.
func mkStr(b []value) value {
	allc := true
	for _, x := range b {
		if _, ok := x.(uint8); !ok {
			allc = false
			break
		}
	}
	if allc {
		bs := make([]byte, len(b))
		for i, x := range b {
			bs[i] = x.(uint8)
		}
		return string(bs)
	}
	r := make(sstr, len(b))
	copy(r, b)
	return r
}

func strSlice(v value, lo, hi int) value {
	switch v := v.(type) {
	case string:
		return v[lo:hi]
	case sstr:
		return mkStr(v[lo:hi])
	}
	panic(fmt.Sprintf("strSlice: %T", v))
}

func strConcat(x, y value) value {
	if xs, ok := x.(string); ok {
		if ys, ok := y.(string); ok {
			return xs + ys
		}
	}
	return mkStr(append(strBytes(x), strBytes(y)...))
}

// strEqTerm returns the Bool term for x == y.
func strEqTerm(x, y value) *Term {
	if strLen(x) != strLen(y) {
		return tFalse
	}
	r := tTrue
	for i, n := 0, strLen(x); i < n; i++ {
		r = mkBin(OpAnd, r, mkBin(OpEq, toTerm(strByte(x, i)), toTerm(strByte(y, i))))
		if r.isFalse() {
			return r
		}
	}
	return r
}

// strLtTerm returns the Bool term for x < y (byte-wise lexicographic, as Go).
func strLtTerm(x, y value) *Term {
	nx, ny := strLen(x), strLen(y)
	n := nx
	if ny < n {
		n = ny
	}
	// from the back: lt_i = x[i]<y[i] || (x[i]==y[i] && lt_{i+1}); base: nx < ny
	r := boolConst(nx < ny)
	for i := n - 1; i >= 0; i-- {
		a, b := toTerm(strByte(x, i)), toTerm(strByte(y, i))
		r = mkBin(OpOr, mkBin(OpULt, a, b), mkBin(OpAnd, mkBin(OpEq, a, b), r))
	}
	return r
}

func strCompareOp(op token.Token, x, y value) value {
	var t *Term
	switch op {
	case token.EQL:
		t = strEqTerm(x, y)
	case token.NEQ:
		t = mkNot(strEqTerm(x, y))
	case token.LSS:
		t = strLtTerm(x, y)
	case token.GTR:
		t = strLtTerm(y, x)
	case token.LEQ:
		t = mkNot(strLtTerm(y, x))
	case token.GEQ:
		t = mkNot(strLtTerm(x, y))
	default:
		panic(fmt.Sprintf("strCompareOp %s", op))
	}
	return mkSym(t, types.Bool)
}

// ---- symbolic arithmetic ----------------------------------------------------

// symBinop implements binary operators when at least one operand is symbolic.
// Division by a symbolic divisor forks on divisor == 0 (Go panics there).
func (i *interpreter) symBinop(op token.Token, x, y value) value {
	k, ok := scalarKind(x)
	if !ok {
		panic(unsupported{fmt.Sprintf("symBinop %s on %T", op, x)})
	}
	if k == types.Bool {
		a, b := toTerm(x), toTerm(y)
		switch op {
		case token.EQL:
			return mkSym(mkBin(OpEq, a, b), types.Bool)
		case token.NEQ:
			return mkSym(mkNot(mkBin(OpEq, a, b)), types.Bool)
		case token.AND, token.LAND:
			return mkSym(mkBin(OpAnd, a, b), types.Bool)
		case token.OR, token.LOR:
			return mkSym(mkBin(OpOr, a, b), types.Bool)
		}
		panic(unsupported{fmt.Sprintf("symBinop bool %s", op)})
	}
	signed := kindSigned(k)
	a := toTerm(x)
	w := a.w
	if op == token.SHL || op == token.SHR {
		// shift count: any integer type
		yk, _ := scalarKind(y)
		b := toTerm(y)
		if kindSigned(yk) {
			neg := mkBin(OpSLt, b, bvConst(b.w, 0))
			if i.truthTerm(neg) {
				panic(targetPanic{"runtime error: negative shift amount"})
			}
		}
		// saturate into width w
		var bw *Term
		if b.w > w {
			big := mkNot(mkBin(OpULt, b, bvConst(b.w, uint64(w))))
			bw = mkIte(big, bvConst(w, uint64(w)), mkExtract(b, w-1, 0))
		} else {
			bw = mkZExt(b, w)
		}
		switch {
		case op == token.SHL:
			return mkSym(mkBin(OpShl, a, bw), k)
		case signed:
			return mkSym(mkBin(OpAShr, a, bw), k)
		default:
			return mkSym(mkBin(OpLShr, a, bw), k)
		}
	}
	b := toTerm(y)
	if b.w != w {
		panic(fmt.Sprintf("symBinop %s: width mismatch %d/%d", op, w, b.w))
	}
	switch op {
	case token.ADD:
		return mkSym(mkBin(OpAdd, a, b), k)
	case token.SUB:
		return mkSym(mkBin(OpSub, a, b), k)
	case token.MUL:
		return mkSym(mkBin(OpMul, a, b), k)
	case token.QUO, token.REM:
		if i.truthTerm(mkBin(OpEq, b, bvConst(w, 0))) {
			panic(targetPanic{"runtime error: integer divide by zero"})
		}
		var o Op
		switch {
		case op == token.QUO && signed:
			o = OpSDiv
		case op == token.QUO:
			o = OpUDiv
		case signed:
			o = OpSRem
		default:
			o = OpURem
		}
		return mkSym(mkBin(o, a, b), k)
	case token.AND:
		return mkSym(mkBin(OpAnd, a, b), k)
	case token.OR:
		return mkSym(mkBin(OpOr, a, b), k)
	case token.XOR:
		return mkSym(mkBin(OpXor, a, b), k)
	case token.AND_NOT:
		return mkSym(mkBin(OpAnd, a, mkNot(b)), k)
	case token.EQL:
		return mkSym(mkBin(OpEq, a, b), types.Bool)
	case token.NEQ:
		return mkSym(mkNot(mkBin(OpEq, a, b)), types.Bool)
	case token.LSS:
		if signed {
			return mkSym(mkBin(OpSLt, a, b), types.Bool)
		}
		return mkSym(mkBin(OpULt, a, b), types.Bool)
	case token.LEQ:
		if signed {
			return mkSym(mkBin(OpSLe, a, b), types.Bool)
		}
		return mkSym(mkBin(OpULe, a, b), types.Bool)
	case token.GTR:
		if signed {
			return mkSym(mkBin(OpSLt, b, a), types.Bool)
		}
		return mkSym(mkBin(OpULt, b, a), types.Bool)
	case token.GEQ:
		if signed {
			return mkSym(mkBin(OpSLe, b, a), types.Bool)
		}
		return mkSym(mkBin(OpULe, b, a), types.Bool)
	}
	panic(unsupported{fmt.Sprintf("symBinop %s", op)})
}

// symConv converts a symbolic integer to another integer kind.
func symConv(x sym, dst types.BasicKind) value {
	if dst == types.Float32 || dst == types.Float64 || dst == types.String {
		panic(unsupported{"conversion of symbolic integer to float/string"})
	}
	dw := kindWidth(dst)
	if dw == 0 || x.t.w == 0 {
		panic(unsupported{"symConv bool"})
	}
	var t *Term
	switch {
	case dw <= x.t.w:
		t = mkExtract(x.t, dw-1, 0)
	case kindSigned(x.k):
		t = mkSExt(x.t, dw)
	default:
		t = mkZExt(x.t, dw)
	}
	return mkSym(t, dst)
}

// equalsV is Go's == for type t over possibly symbolic values; the result is
// a bool or a symbolic Bool.
func equalsV(t types.Type, x, y value) value {
	return mkSym(eqTerm(t, x, y), types.Bool)
}

func eqTerm(t types.Type, x, y value) *Term {
	switch x := x.(type) {
	case sym:
		return mkBin(OpEq, x.t, toTerm(y))
	case string:
		if ys, ok := y.(string); ok {
			return boolConst(x == ys)
		}
		return strEqTerm(x, y)
	case sstr:
		return strEqTerm(x, y)
	case structure:
		ys := y.(structure)
		tStruct := t.Underlying().(*types.Struct)
		r := tTrue
		for i, n := 0, tStruct.NumFields(); i < n; i++ {
			// Go compares all fields except blank ones.
			if f := tStruct.Field(i); f.Name() != "_" {
				r = mkBin(OpAnd, r, eqTerm(f.Type(), x[i], ys[i]))
				if r.isFalse() {
					return r
				}
			}
		}
		return r
	case array:
		ya := y.(array)
		tElt := t.Underlying().(*types.Array).Elem()
		r := tTrue
		for i := range x {
			r = mkBin(OpAnd, r, eqTerm(tElt, x[i], ya[i]))
			if r.isFalse() {
				return r
			}
		}
		return r
	case iface:
		yi := y.(iface)
		if !sameType(x.t, yi.t) {
			return tFalse
		}
		if x.t == nil {
			return tTrue
		}
		return eqTerm(x.t, x.v, yi.v)
	}
	if _, ok := y.(sym); ok {
		return mkBin(OpEq, toTerm(x), toTerm(y))
	}
	return boolConst(equals(t, x, y))
}
