package interp

import (
	"fmt"
	"go/token"
	"go/types"
	"os"
	"runtime"
	"sort"
	"strings"
	"sync"
	"time"

	"golang.org/x/tools/go/packages"
	"golang.org/x/tools/go/ssa"
	"golang.org/x/tools/go/ssa/ssautil"
)

type Config struct {
	Dir       string            // repository root
	Pkg       string            // package pattern holding the harness (e.g. ./agent/consul/state)
	Overlay   map[string][]byte // virtual files
	Tags      string
	Workers   int
	Solver    string
	MaxPaths  int
	Budget    time.Duration
	MaxSteps  int64
	QueryMs   int
	AssertMs  int
	Trace     bool
	SolverLog string
	Thorough  bool
}

type Program struct {
	Prog  *ssa.Program
	Pkg   *ssa.Package
	Sizes types.Sizes
	LoadS float64
}

func Load(cfg Config) (*Program, error) {
	t0 := time.Now()
	pc := &packages.Config{
		Mode:       packages.LoadAllSyntax,
		Dir:        cfg.Dir,
		Overlay:    cfg.Overlay,
		BuildFlags: []string{"-tags=" + cfg.Tags},
		Env:        append(os.Environ(), "GOFLAGS=-mod=mod", "GOPROXY=off", "GOSUMDB=off", "GOTOOLCHAIN=local", "PATH=/opt/veriftools/go1.26.8/bin:"+os.Getenv("PATH")),
	}
	pkgs, err := packages.Load(pc, cfg.Pkg)
	if err != nil {
		return nil, err
	}
	nerr := 0
	packages.Visit(pkgs, nil, func(p *packages.Package) {
		for _, e := range p.Errors {
			if nerr < 20 {
				fmt.Fprintln(os.Stderr, "load error:", e)
			}
			nerr++
		}
	})
	if nerr > 0 {
		return nil, fmt.Errorf("%d package load errors", nerr)
	}
	prog, spkgs := ssautil.AllPackages(pkgs, ssa.InstantiateGenerics)
	prog.Build()
	if len(spkgs) != 1 || spkgs[0] == nil {
		return nil, fmt.Errorf("expected one root package, got %d", len(spkgs))
	}
	return &Program{Prog: prog, Pkg: spkgs[0], Sizes: &types.StdSizes{WordSize: 8, MaxAlign: 8}, LoadS: time.Since(t0).Seconds()}, nil
}

type FuncInfo struct {
	Name   string `json:"name"`
	Instrs int    `json:"ssa_instrs"`
	Calls  int    `json:"calls"`
}

type Result struct {
	Harness      string         `json:"harness"`
	Paths        int            `json:"paths"`
	PathsEnded   map[string]int `json:"paths_ended"`
	Branches     int            `json:"branches"`
	AssertChecks int            `json:"assert_queries"`
	AssertsHeld  int            `json:"assert_unsat"`
	AssertSites  map[string]int `json:"assert_sites"`
	Reached      map[string]int `json:"reached"`
	Unsupported  map[string]int `json:"unsupported"`
	EngineErrors map[string]int `json:"engine_errors"`
	Steps        int64          `json:"ssa_steps"`
	QuerySat     int            `json:"queries_sat"`
	QueryUnsat   int            `json:"queries_unsat"`
	QueryUnknown int            `json:"queries_unknown"`
	SolverErrors int            `json:"solver_errors"`
	SolverS      float64        `json:"solver_s"`
	WallS        float64        `json:"wall_s"`
	Budget       bool           `json:"budget_exhausted"`
	Stubs        map[string]int `json:"stubs_hit"`
	Funcs        []FuncInfo     `json:"functions_encoded"`
	NFuncs       int            `json:"n_functions"`
	Violations   []Violation    `json:"violations"`
	Samples      []Violation    `json:"samples"`
	InitBad      map[string]string `json:"init_incomplete,omitempty"`
}

func countInstrs(fn *ssa.Function) int {
	n := 0
	for _, b := range fn.Blocks {
		n += len(b.Instrs)
	}
	return n
}

// RunHarness explores every path of the harness function `name` (and its
// optional setup function name+"_Setup").
func RunHarness(p *Program, cfg Config, name string) (*Result, error) {
	fn := p.Pkg.Func(name)
	if fn == nil {
		return nil, fmt.Errorf("harness %s not found in %s", name, p.Pkg.Pkg.Path())
	}
	setup := p.Pkg.Func(name + "_Setup")
	e := NewExplorer(name)
	e.MaxPaths = cfg.MaxPaths
	if cfg.Budget > 0 {
		e.Deadline = time.Now().Add(cfg.Budget)
	}
	if cfg.QueryMs > 0 {
		e.QueryMs = cfg.QueryMs
	}
	if cfg.AssertMs > 0 {
		e.AssertMs = cfg.AssertMs
	}
	nw := cfg.Workers
	if nw <= 0 {
		// each worker drives its own z3 process: half the cores each
		nw = runtime.NumCPU() / 2
		if nw < 1 {
			nw = 1
		}
	}
	solverBin := cfg.Solver
	if solverBin == "" {
		solverBin = "z3"
	}
	t0 := time.Now()
	stopTick := make(chan struct{})
	go func() {
		tk := time.NewTicker(20 * time.Second)
		defer tk.Stop()
		for {
			select {
			case <-stopTick:
				return
			case <-tk.C:
				e.mu.Lock()
				fmt.Fprintf(os.Stderr, "  [%s %.0fs] paths=%d queued=%d active=%d ended=%v violations=%d\n", name, time.Since(t0).Seconds(), e.Stats.Paths, len(e.queue), e.active, e.Stats.PathsEnded, len(e.Violations))
				e.mu.Unlock()
			}
		}
	}()
	var wg sync.WaitGroup
	var mu sync.Mutex
	funcs := map[*ssa.Function]int{}
	initBad := map[string]string{}
	var firstErr error
	for w := 0; w < nw; w++ {
		wg.Add(1)
		go func(id int) {
			defer wg.Done()
			s, err := NewSolver(solverBin, "-in")
			if err != nil {
				mu.Lock()
				firstErr = err
				mu.Unlock()
				return
			}
			defer s.Close()
			if cfg.SolverLog != "" && id == 0 {
				// one transcript for all harnesses of the run: each harness's solver starts with (reset)
				f, _ := os.OpenFile(cfg.SolverLog, os.O_CREATE|os.O_WRONLY|os.O_APPEND, 0o644)
				if f != nil {
					f.WriteString("(reset)\n")
					s.LogW = f
					defer f.Close()
				}
			}
			in := newInterpreter(p.Prog, p.Sizes)
			if cfg.MaxSteps > 0 {
				in.maxSteps = cfg.MaxSteps
			}
			if cfg.Trace {
				in.mode |= EnableTracing
			}
			in.thorough = cfg.Thorough
			wk := &worker{id: id, e: e, i: in, s: s}
			var setupVal value
			setupOK := true
			if setup != nil {
				func() {
					defer func() {
						if r := recover(); r != nil {
							setupOK = false
							e.mu.Lock()
							e.Stats.EngineErrors["setup: "+panicString(r)]++
							e.mu.Unlock()
						}
					}()
					in.replaced = map[string]value{}
					setupVal = call(in, nil, token.NoPos, setup, nil)
					// replacements installed by the setup part hold on every path
					in.setupReplaced = in.replaced
				}()
			}
			if setupOK {
				for {
					prefix, ok := e.take()
					if !ok {
						break
					}
					wk.runPath(fn, prefix, setup != nil, setupVal)
					e.done()
				}
			} else {
				// drain so that other workers terminate
				e.mu.Lock()
				e.stop = true
				e.cond.Broadcast()
				e.mu.Unlock()
			}
			e.mu.Lock()
			for k := 0; k < 3; k++ {
				e.Stats.Queries[k] += s.Queries[k]
			}
			e.Stats.SolverTime += s.Time
			e.Stats.SolverErrors += s.Errors
			for k, v := range in.stubsHit {
				e.Stats.Stubs[k] += v
			}
			e.mu.Unlock()
			mu.Lock()
			for f, n := range in.funcsHit {
				funcs[f] += n
			}
			for pk, why := range in.initBad {
				initBad[pk.Pkg.Path()] = why
			}
			mu.Unlock()
		}(w)
	}
	wg.Wait()
	close(stopTick)
	if firstErr != nil {
		return nil, firstErr
	}
	st := &e.Stats
	r := &Result{
		Harness: name, Paths: st.Paths, PathsEnded: st.PathsEnded, Branches: st.Branches,
		AssertChecks: st.AssertChecks, AssertsHeld: st.AssertsHeld, AssertSites: st.AssertSites,
		Reached: st.Reached, Unsupported: st.Unsupported, EngineErrors: st.EngineErrors, Steps: st.Steps,
		QuerySat: st.Queries[Sat], QueryUnsat: st.Queries[Unsat], QueryUnknown: st.Queries[Unknown],
		SolverErrors: st.SolverErrors, SolverS: st.SolverTime.Seconds(), WallS: time.Since(t0).Seconds(),
		Budget: st.Budget, Stubs: st.Stubs, Violations: e.sortedViolations(), Samples: st.Samples, InitBad: initBad,
	}
	if r.Violations == nil {
		r.Violations = []Violation{}
	}
	if r.Samples == nil {
		r.Samples = []Violation{}
	}
	for f, n := range funcs {
		r.Funcs = append(r.Funcs, FuncInfo{Name: f.String(), Instrs: countInstrs(f), Calls: n})
	}
	sort.Slice(r.Funcs, func(a, b int) bool { return r.Funcs[a].Name < r.Funcs[b].Name })
	r.NFuncs = len(r.Funcs)
	return r, nil
}

func panicString(r any) string {
	switch r := r.(type) {
	case targetPanic:
		return "target panic: " + describePanic(r.v)
	case unsupported:
		return "unsupported: " + r.msg
	case engineError:
		return r.String()
	case pathEnd:
		return "pathEnd: " + r.reason
	}
	return fmt.Sprint(r)
}

func (w *worker) runPath(fn *ssa.Function, prefix []entry, hasSetup bool, setupVal value) {
	in := w.i
	p := w.begin(prefix)
	in.path = p
	in.logging = true
	in.steps = 0
	in.depth = 0
	in.lastNow = nil
	in.replaced = map[string]value{}
	for k, v := range in.setupReplaced {
		in.replaced[k] = v
	}
	in.notes = nil
	outcome := "completed"
	func() {
		defer func() {
			r := recover()
			if r == nil {
				return
			}
			switch r := r.(type) {
			case pathEnd:
				outcome = r.reason
			case unsupported:
				outcome = "unsupported"
				w.e.mu.Lock()
				w.e.Stats.Unsupported[r.msg]++
				w.e.mu.Unlock()
			case targetPanic:
				outcome = "panic"
				w.reportPanic(p, describePanic(r.v))
			case engineError:
				outcome = "engine-error"
				w.e.mu.Lock()
				key := r.String()
				if w.e.Stats.EngineErrors[key] == 0 && os.Getenv("GOSYM_DEBUG") != "" {
					fmt.Fprintln(os.Stderr, key, "\n", r.stack)
				}
				w.e.Stats.EngineErrors[key]++
				w.e.mu.Unlock()
			default:
				outcome = "engine-error"
				w.e.mu.Lock()
				key := fmt.Sprint(r)
				if w.e.Stats.EngineErrors[key] == 0 && os.Getenv("GOSYM_DEBUG") != "" {
					buf := make([]byte, 1<<14)
					buf = buf[:runtime.Stack(buf, false)]
					fmt.Fprintln(os.Stderr, key, "\n", string(buf))
				}
				w.e.Stats.EngineErrors[key]++
				w.e.mu.Unlock()
			}
		}()
		var args []value
		if hasSetup && fn.Signature.Params().Len() == 1 {
			args = []value{setupVal}
		}
		call(in, nil, token.NoPos, fn, args)
	}()
	w.e.mu.Lock()
	w.e.Stats.PathsEnded[outcome]++
	w.e.Stats.Steps += in.steps
	w.e.mu.Unlock()
	w.prevTrace = p.trace
	w.prevPcLen = p.pcLenAt
	w.prevPcN = len(p.pc)
	if w.synced > len(p.pc) {
		w.s.Pop(w.synced - len(p.pc))
		w.synced = len(p.pc)
	}
	in.path = nil
	in.logging = false
	in.rollback()
}

// reportPanic records an uncaught target panic as a violation of the implicit
// "no panic" obligation, with a model of the path condition.
func (w *worker) reportPanic(p *pathCtx, msg string) {
	if p.di < len(p.prefix) {
		return
	}
	p.sync()
	if w.s.Check(w.e.QueryMs) != Sat {
		return
	}
	nd, ok := p.model()
	if !ok {
		return
	}
	short := msg
	if k := strings.Index(short, " ("); k > 0 {
		short = short[:k]
	}
	w.e.addViolation(Violation{Harness: w.e.Harness, Assert: "no-panic", Kind: "panic", Detail: msg, Nondet: nd})
}
