package interp

// Engine-side data structures with logged mutation: ordered maps that accept
// symbolic keys, channels (no goroutines), iterators, conversions.

import (
	"fmt"
	"os"
	"go/types"
	"strings"
	"unicode/utf8"

	"golang.org/x/tools/go/ssa"
)

type unsafePtr struct{ p *value }

// ---- ordered map -------------------------------------------------------------

type mapEntry struct {
	key     value
	val     value
	deleted bool
	conc    bool
}

type omap struct {
	keyType types.Type
	entries []*mapEntry
	idx     map[string]int // concrete keys -> entry index
	live    int
	nsym    int // live entries with symbolic keys
}

func newOMap(kt types.Type) *omap {
	return &omap{keyType: kt, idx: map[string]int{}}
}

// keyString returns a canonical encoding of a fully concrete key.
func keyString(v value) (string, bool) {
	var sb strings.Builder
	if !writeKey(&sb, v) {
		return "", false
	}
	return sb.String(), true
}

func writeKey(sb *strings.Builder, v value) bool {
	switch v := v.(type) {
	case sym, sstr:
		return false
	case string:
		fmt.Fprintf(sb, "s%d:%s", len(v), v)
	case bool, int, int8, int16, int32, int64, uint, uint8, uint16, uint32, uint64, uintptr, float32, float64:
		fmt.Fprintf(sb, "%T%v;", v, v)
	case *value:
		fmt.Fprintf(sb, "p%p;", v)
	case *chanv:
		fmt.Fprintf(sb, "c%p;", v)
	case unsafePtr:
		fmt.Fprintf(sb, "u%p;", v.p)
	case rtype:
		fmt.Fprintf(sb, "rt%s;", v.t.String())
	case iface:
		if v.t == nil {
			sb.WriteString("nil;")
			return true
		}
		fmt.Fprintf(sb, "i<%s>", v.t.String())
		return writeKey(sb, v.v)
	case structure:
		sb.WriteString("{")
		for _, f := range v {
			if !writeKey(sb, f) {
				return false
			}
		}
		sb.WriteString("}")
	case array:
		sb.WriteString("[")
		for _, f := range v {
			if !writeKey(sb, f) {
				return false
			}
		}
		sb.WriteString("]")
	case *ssa.Function:
		fmt.Fprintf(sb, "f%p;", v)
	case *closure:
		fmt.Fprintf(sb, "cl%p;", v)
	default:
		panic(fmt.Sprintf("writeKey: unhashable %T", v))
	}
	return true
}

// find returns the entry index for key k (forking on symbolic comparisons), or -1.
func (m *omap) find(i *interpreter, k value) int {
	if m == nil {
		return -1
	}
	ks, conc := keyString(k)
	if conc {
		if j, ok := m.idx[ks]; ok {
			return j
		}
		if m.nsym == 0 {
			return -1
		}
	}
	for j, e := range m.entries {
		if e.deleted || (conc && e.conc) {
			continue
		}
		eq := eqTerm(m.keyType, k, e.key)
		if i.truthTerm(eq) {
			return j
		}
	}
	return -1
}

func (m *omap) lookup(i *interpreter, k value) (value, bool) {
	j := m.find(i, k)
	if j < 0 {
		return nil, false
	}
	return m.entries[j].val, true
}

func (m *omap) insert(i *interpreter, k, v value) {
	if j := m.find(i, k); j >= 0 {
		e := m.entries[j]
		old := e.val
		i.onUndo(func() { e.val = old })
		e.val = copyVal(v)
		return
	}
	ks, conc := keyString(k)
	e := &mapEntry{key: copyVal(k), val: copyVal(v), conc: conc}
	m.entries = append(m.entries, e)
	n := len(m.entries) - 1
	if conc {
		m.idx[ks] = n
	} else {
		m.nsym++
	}
	m.live++
	i.onUndo(func() {
		m.entries = m.entries[:n]
		if conc {
			delete(m.idx, ks)
		} else {
			m.nsym--
		}
		m.live--
	})
}

func (m *omap) delete(i *interpreter, k value) {
	if m == nil {
		return
	}
	j := m.find(i, k)
	if j < 0 {
		return
	}
	e := m.entries[j]
	ks, _ := keyString(e.key)
	e.deleted = true
	m.live--
	if e.conc {
		delete(m.idx, ks)
	} else {
		m.nsym--
	}
	i.onUndo(func() {
		e.deleted = false
		m.live++
		if e.conc {
			m.idx[ks] = j
		} else {
			m.nsym++
		}
	})
}

func (m *omap) clear(i *interpreter) {
	if m == nil {
		return
	}
	for _, e := range m.entries {
		if !e.deleted {
			m.delete(i, e.key)
		}
	}
}

func (m *omap) len() int {
	if m == nil {
		return 0
	}
	return m.live
}

type omapIter struct {
	i    *interpreter
	m    *omap
	pos  int
	perm bool
	seen map[*mapEntry]bool
}

func (m *omap) iterator(i *interpreter) iter {
	it := &omapIter{i: i, m: m}
	// every order of maps with up to 3 entries; up to 7 when the harness names the function (PermuteMapsIn)
	limit := 3
	if i.path != nil && i.path.permuteIn != "" {
		limit = 7
	}
	if i.path != nil && i.path.permute && m != nil && m.live > 1 && m.live <= limit && inConsulCode(i.curFn) &&
		(i.path.permuteIn == "" || strings.Contains(i.curFn.String(), i.path.permuteIn)) {
		it.perm = true
		it.seen = map[*mapEntry]bool{}
		if debugConc && i.curFn != nil {
			fmt.Fprintf(os.Stderr, "permuted range in %s (%d entries)\n", i.curFn, m.live)
		}
	}
	return it
}

func (it *omapIter) next() tuple {
	if it.m == nil {
		return tuple{false, nil, nil}
	}
	if it.perm {
		var rem []*mapEntry
		for _, e := range it.m.entries {
			if !e.deleted && !it.seen[e] {
				rem = append(rem, e)
			}
		}
		if len(rem) == 0 {
			return tuple{false, nil, nil}
		}
		e := rem[it.i.path.choose(len(rem))]
		it.seen[e] = true
		return tuple{true, e.key, e.val}
	}
	for it.pos < len(it.m.entries) {
		e := it.m.entries[it.pos]
		it.pos++
		if !e.deleted {
			return tuple{true, e.key, e.val}
		}
	}
	return tuple{false, nil, nil}
}

// ---- strings ------------------------------------------------------------------

type sstrIter struct {
	i   *interpreter
	s   sstr
	pos int
}

// next decodes one rune. Symbolic bytes are restricted to ASCII by forking:
// the non-ASCII side is reported as unsupported (multi-byte decoding of
// symbolic bytes is outside the engine).
func (it *sstrIter) next() tuple {
	if it.pos >= len(it.s) {
		return tuple{false, nil, nil}
	}
	b := it.s[it.pos]
	if c, ok := b.(uint8); ok && c >= utf8.RuneSelf {
		// concrete multi-byte sequence: need all bytes concrete
		n := 1
		buf := []byte{c}
		for k := it.pos + 1; k < len(it.s) && k < it.pos+4; k++ {
			cc, ok := it.s[k].(uint8)
			if !ok {
				panic(unsupported{"range over string: symbolic continuation byte"})
			}
			buf = append(buf, cc)
		}
		r, n := utf8.DecodeRune(buf)
		p := it.pos
		it.pos += n
		return tuple{true, p, r}
	}
	p := it.pos
	it.pos++
	if c, ok := b.(uint8); ok {
		return tuple{true, p, rune(c)}
	}
	s := b.(sym)
	if it.i.truthTerm(mkBin(OpULt, s.t, bvConst(8, utf8.RuneSelf))) {
		return tuple{true, p, mkSym(mkZExt(s.t, 32), types.Int32)}
	}
	panic(unsupported{"range over string with symbolic non-ASCII byte"})
}

// symConvAny handles conversions that involve symbolic scalars or strings
// with symbolic bytes. ok=false means "use the concrete implementation".
func symConvAny(i *interpreter, t_dst, t_src types.Type, x value) (value, bool) {
	ud := t_dst.Underlying()
	switch xv := x.(type) {
	case sym:
		if b, ok := ud.(*types.Basic); ok {
			if b.Kind() == types.String {
				// string(rune/byte): supported for ASCII
				if i.truthTerm(mkBin(OpULt, mkZExt(xv.t, 64), bvConst(64, utf8.RuneSelf))) {
					return mkStr([]value{mkSym(mkExtract(xv.t, 7, 0), types.Uint8)}), true
				}
				panic(unsupported{"string(symbolic non-ASCII rune)"})
			}
			if xv.k == types.Bool {
				return x, true
			}
			return symConv(xv, b.Kind()), true
		}
	case sstr:
		switch d := ud.(type) {
		case *types.Basic:
			if d.Kind() == types.String {
				return x, true
			}
		case *types.Slice:
			switch d.Elem().Underlying().(*types.Basic).Kind() {
			case types.Byte:
				return strBytes(xv), true
			case types.Rune:
				var out []value
				it := &sstrIter{i: i, s: xv}
				for {
					t := it.next()
					if !t[0].(bool) {
						break
					}
					out = append(out, t[2])
				}
				return out, true
			}
		}
	case []value:
		if b, ok := ud.(*types.Basic); ok && b.Kind() == types.String {
			if sl, ok := t_src.Underlying().(*types.Slice); ok {
				if eb, ok := sl.Elem().Underlying().(*types.Basic); ok && eb.Kind() == types.Byte {
					return mkStr(xv), true
				}
				if eb, ok := sl.Elem().Underlying().(*types.Basic); ok && eb.Kind() == types.Rune {
					anysym := false
					for _, r := range xv {
						if isSym(r) {
							anysym = true
						}
					}
					if anysym {
						var bs []value
						for _, r := range xv {
							if s, ok := r.(sym); ok {
								if !i.truthTerm(mkBin(OpULt, s.t, bvConst(32, utf8.RuneSelf))) {
									panic(unsupported{"string([]rune) with symbolic non-ASCII rune"})
								}
								bs = append(bs, mkSym(mkExtract(s.t, 7, 0), types.Uint8))
							} else {
								for _, c := range []byte(string(r.(rune))) {
									bs = append(bs, c)
								}
							}
						}
						return mkStr(bs), true
					}
				}
			}
		}
	}
	return nil, false
}

// ---- channels (single-threaded) -------------------------------------------------

type chanv struct {
	buf    []value
	cap    int
	closed bool
}

func chanSend(i *interpreter, c *chanv, v value) {
	if c == nil {
		panic(pathEnd{"blocked: send on nil channel"})
	}
	if c.closed {
		panic(targetPanic{"send on closed channel"})
	}
	if len(c.buf) >= c.cap {
		panic(unsupported{"blocked: send on full/unbuffered channel (no goroutines)"})
	}
	old := c.buf
	i.onUndo(func() { c.buf = old })
	c.buf = append(append([]value{}, c.buf...), copyVal(v))
}

func chanRecv(i *interpreter, c *chanv, blocking bool) (value, bool) {
	if c == nil {
		panic(pathEnd{"blocked: receive on nil channel"})
	}
	if len(c.buf) > 0 {
		v := c.buf[0]
		old := c.buf
		i.onUndo(func() { c.buf = old })
		c.buf = append([]value{}, c.buf[1:]...)
		return v, true
	}
	if c.closed {
		return nil, false
	}
	panic(unsupported{"blocked: receive on empty channel (no goroutines)"})
}

func doSelect(fr *frame, instr *ssa.Select) value {
	i := fr.i
	var ready []int
	for k, st := range instr.States {
		c := fr.get(st.Chan).(*chanv)
		if c == nil {
			continue
		}
		if st.Dir == types.RecvOnly {
			if len(c.buf) > 0 || c.closed {
				ready = append(ready, k)
			}
		} else if c.closed || len(c.buf) < c.cap {
			ready = append(ready, k)
		}
	}
	chosen := -1
	var recv value
	recvOk := false
	if len(ready) > 0 {
		pick := 0
		if len(ready) > 1 && i.path != nil {
			pick = i.path.choose(len(ready))
		}
		chosen = ready[pick]
		st := instr.States[chosen]
		c := fr.get(st.Chan).(*chanv)
		if st.Dir == types.RecvOnly {
			recv, recvOk = chanRecv(i, c, false)
		} else {
			chanSend(i, c, fr.get(st.Send))
		}
	} else if instr.Blocking {
		panic(pathEnd{"blocked: select with no ready case"})
	}
	r := tuple{chosen, recvOk}
	for k, st := range instr.States {
		if st.Dir == types.RecvOnly {
			var v value
			if k == chosen && recvOk {
				v = recv
			} else {
				v = zero(st.Chan.Type().Underlying().(*types.Chan).Elem())
			}
			r = append(r, v)
		}
	}
	return r
}

// goIgnored reports whether a go statement may be dropped (declared by the
// harness through verifrt.IgnoreGo).
func (i *interpreter) goIgnored(callee, caller string) bool {
	if i.notes == nil {
		return false
	}
	for k := range i.notes {
		if strings.HasPrefix(k, "ignorego:") {
			pat := strings.TrimPrefix(k, "ignorego:")
			if strings.Contains(callee, pat) || strings.Contains(caller, pat) {
				i.stubsHit["go:"+pat]++
				return true
			}
		}
	}
	return false
}

// inConsulCode: map-order permutation is applied to range statements written
// in the repository's own packages (library internals such as go-memdb and
// go-immutable-radix iterate maps in ways that are order-insensitive by design).
func inConsulCode(fn *ssa.Function) bool {
	if fn == nil {
		return false
	}
	p := fn.Package()
	if p == nil {
		// instantiations of generic functions (and closures inside them) have no package of their own
		for f := fn; f != nil && p == nil; f = f.Parent() {
			if o := f.Origin(); o != nil {
				p = o.Package()
			}
		}
	}
	if p == nil || p.Pkg == nil {
		return false
	}
	return strings.HasPrefix(p.Pkg.Path(), "github.com/hashicorp/consul/")
}
