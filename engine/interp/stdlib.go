package interp

// Environment model for standard-library leaves that cannot be interpreted
// (assembly, unsafe, reflection) or that should not be (formatting).

import (
	"reflect"
	"fmt"
	"go/token"
	"go/types"
	"sort"
	"strconv"
	"strings"

	"golang.org/x/tools/go/ssa"
)

func init() {
	ext := map[string]externalFn{
		// ---- bytealg / strings / bytes leaves --------------------------------
		"internal/bytealg.IndexByteString": func(fr *frame, a []value) value { return indexByte(fr.i, strBytes(a[0]), a[1]) },
		"internal/bytealg.IndexByte":       func(fr *frame, a []value) value { return indexByte(fr.i, a[0].([]value), a[1]) },
		"internal/bytealg.LastIndexByteString": func(fr *frame, a []value) value {
			return lastIndexByte(fr.i, strBytes(a[0]), a[1])
		},
		"internal/bytealg.LastIndexByte": func(fr *frame, a []value) value { return lastIndexByte(fr.i, a[0].([]value), a[1]) },
		"internal/bytealg.CountString":   func(fr *frame, a []value) value { return countByte(strBytes(a[0]), a[1]) },
		"internal/bytealg.Count":         func(fr *frame, a []value) value { return countByte(a[0].([]value), a[1]) },
		"internal/bytealg.Equal": func(fr *frame, a []value) value {
			return mkSym(strEqTerm(mkStr(a[0].([]value)), mkStr(a[1].([]value))), types.Bool)
		},
		"internal/bytealg.Compare": func(fr *frame, a []value) value {
			return compareStr(mkStr(a[0].([]value)), mkStr(a[1].([]value)))
		},
		"internal/bytealg.CompareString": func(fr *frame, a []value) value { return compareStr(a[0], a[1]) },
		"internal/bytealg.MakeNoZero": func(fr *frame, a []value) value {
			n := fr.i.concInt(a[0])
			s := make([]value, n)
			for k := range s {
				s[k] = uint8(0)
			}
			return s
		},
		"internal/bytealg.IndexString": func(fr *frame, a []value) value { return indexStr(fr.i, a[0], a[1]) },
		"internal/bytealg.Index": func(fr *frame, a []value) value {
			return indexStr(fr.i, mkStr(a[0].([]value)), mkStr(a[1].([]value)))
		},
		"strings.Index":      func(fr *frame, a []value) value { return indexStr(fr.i, a[0], a[1]) },
		"strings.IndexByte":  func(fr *frame, a []value) value { return indexByte(fr.i, strBytes(a[0]), a[1]) },
		"strings.LastIndex":  func(fr *frame, a []value) value { return lastIndexStr(fr.i, a[0], a[1]) },
		"bytes.Index":        func(fr *frame, a []value) value { return indexStr(fr.i, mkStr(a[0].([]value)), mkStr(a[1].([]value))) },
		"bytes.IndexByte":    func(fr *frame, a []value) value { return indexByte(fr.i, a[0].([]value), a[1]) },
		"strings.Compare":    func(fr *frame, a []value) value { return compareStr(a[0], a[1]) },
		"bytes.Compare":      func(fr *frame, a []value) value { return compareStr(mkStr(a[0].([]value)), mkStr(a[1].([]value))) },
		"bytes.Equal":        func(fr *frame, a []value) value { return mkSym(strEqTerm(mkStr(a[0].([]value)), mkStr(a[1].([]value))), types.Bool) },
		"strings.ToLower":    func(fr *frame, a []value) value { return mapASCII(fr.i, a[0], true) },
		"strings.ToUpper":    func(fr *frame, a []value) value { return mapASCII(fr.i, a[0], false) },
		"bytes.ToLower":      func(fr *frame, a []value) value { return strBytes(mapASCII(fr.i, mkStr(a[0].([]value)), true)) },
		"strings.EqualFold": func(fr *frame, a []value) value {
			x, y := mapASCII(fr.i, a[0], true), mapASCII(fr.i, a[1], true)
			return mkSym(strEqTerm(x, y), types.Bool)
		},
		"(*strings.Builder).String": func(fr *frame, a []value) value {
			st := (*a[0].(*value)).(structure)
			return mkStr(st[1].([]value))
		},
		"(*strings.Builder).copyCheck": extNoop,
		"strings.Clone":                func(fr *frame, a []value) value { return a[0] },
		"unique.Make[string]":          nil,

		// ---- errors ----------------------------------------------------------
		"errors.Is": func(fr *frame, a []value) value { return errorsIs(fr, a[0].(iface), a[1].(iface)) },
		"errors.As": func(fr *frame, a []value) value { return errorsAs(fr, a[0].(iface), a[1].(iface)) },

		// ---- fmt --------------------------------------------------------------
		"fmt.Sprintf": func(fr *frame, a []value) value { return sprintf(fr, a[0], a[1].([]value), true) },
		"fmt.Errorf":  extErrorf,
		"fmt.Sprint": func(fr *frame, a []value) value {
			var parts []value
			for _, x := range a[0].([]value) {
				parts = append(parts, formatValue(fr, 'v', "", x.(iface)))
			}
			return concatAll(parts)
		},
		"fmt.Sprintln": func(fr *frame, a []value) value {
			var parts []value
			for k, x := range a[0].([]value) {
				if k > 0 {
					parts = append(parts, " ")
				}
				parts = append(parts, formatValue(fr, 'v', "", x.(iface)))
			}
			parts = append(parts, "\n")
			return concatAll(parts)
		},
		"fmt.Fprintf":  func(fr *frame, a []value) value { return tuple{0, iface{}} },
		"fmt.Fprintln": func(fr *frame, a []value) value { return tuple{0, iface{}} },
		"fmt.Fprint":   func(fr *frame, a []value) value { return tuple{0, iface{}} },
		"fmt.Printf":   func(fr *frame, a []value) value { return tuple{0, iface{}} },
		"fmt.Println":  func(fr *frame, a []value) value { return tuple{0, iface{}} },

		// ---- sort ---------------------------------------------------------------
		"sort.Slice":       func(fr *frame, a []value) value { sortSlice(fr, a[0].(iface).v.([]value), a[1]); return nil },
		"sort.SliceStable": func(fr *frame, a []value) value { sortSlice(fr, a[0].(iface).v.([]value), a[1]); return nil },

		// ---- reflect ------------------------------------------------------------
		"reflect.DeepEqual": func(fr *frame, a []value) value {
			x, y := a[0].(iface), a[1].(iface)
			if x.t == nil || y.t == nil {
				return x.t == nil && y.t == nil
			}
			if !types.Identical(x.t, y.t) {
				return false
			}
			return mkSym(deepEq(x.t, x.v, y.v, 0), types.Bool)
		},

		// ---- time ---------------------------------------------------------------
		"time.Now": extTimeNow,
		// randomness is an arbitrary value
		"math/rand.runtime_rand":    extRuntimeRand,
		"math/rand/v2.runtime_rand": extRuntimeRand,
		"time.now": func(fr *frame, a []value) value { panic(unsupported{"time.now (runtime clock)"}) },
		"time.runtimeNano": func(fr *frame, a []value) value { return int64(0) },

		"strconv.Itoa": func(fr *frame, a []value) value {
			if s, ok := a[0].(sym); ok {
				_ = s
				panic(unsupported{"strconv.Itoa of a symbolic integer"})
			}
			return strconv.Itoa(a[0].(int))
		},
	}
	for k, v := range ext {
		if v != nil {
			externals[k] = v
		}
	}
}

func indexByte(i *interpreter, s []value, c value) value {
	for k, b := range s {
		if i.truth(mkSym(mkBin(OpEq, toTerm(b), toTerm(c)), types.Bool)) {
			return k
		}
	}
	return -1
}

func lastIndexByte(i *interpreter, s []value, c value) value {
	for k := len(s) - 1; k >= 0; k-- {
		if i.truth(mkSym(mkBin(OpEq, toTerm(s[k]), toTerm(c)), types.Bool)) {
			return k
		}
	}
	return -1
}

func countByte(s []value, c value) value {
	t := bvConst(64, 0)
	for _, b := range s {
		t = mkBin(OpAdd, t, mkIte(mkBin(OpEq, toTerm(b), toTerm(c)), bvConst(64, 1), bvConst(64, 0)))
	}
	return mkSym(t, types.Int)
}

func compareStr(x, y value) value {
	if xs, ok := x.(string); ok {
		if ys, ok := y.(string); ok {
			return strings.Compare(xs, ys)
		}
	}
	lt, eq := strLtTerm(x, y), strEqTerm(x, y)
	return mkSym(mkIte(lt, bvConst(64, ^uint64(0)), mkIte(eq, bvConst(64, 0), bvConst(64, 1))), types.Int)
}

func indexStr(i *interpreter, s, sub value) value {
	if ss, ok := s.(string); ok {
		if su, ok := sub.(string); ok {
			return strings.Index(ss, su)
		}
	}
	n, m := strLen(s), strLen(sub)
	for k := 0; k+m <= n; k++ {
		if i.truthTerm(strEqTerm(strSlice(s, k, k+m), sub)) {
			return k
		}
	}
	return -1
}

func lastIndexStr(i *interpreter, s, sub value) value {
	n, m := strLen(s), strLen(sub)
	for k := n - m; k >= 0; k-- {
		if i.truthTerm(strEqTerm(strSlice(s, k, k+m), sub)) {
			return k
		}
	}
	return -1
}

// mapASCII lower/upper-cases a string. Symbolic bytes are handled with an
// ite per byte; a symbolic byte >= 0x80 ends the path as unsupported (Unicode
// case mapping of symbolic bytes is outside the engine).
func mapASCII(i *interpreter, s value, lower bool) value {
	if cs, ok := s.(string); ok {
		if lower {
			return strings.ToLower(cs)
		}
		return strings.ToUpper(cs)
	}
	b := strBytes(s)
	out := make([]value, len(b))
	for k, x := range b {
		sx, ok := x.(sym)
		if !ok {
			c := x.(uint8)
			if c >= 0x80 {
				panic(unsupported{"case mapping of non-ASCII byte next to symbolic bytes"})
			}
			if lower && 'A' <= c && c <= 'Z' {
				c += 'a' - 'A'
			} else if !lower && 'a' <= c && c <= 'z' {
				c -= 'a' - 'A'
			}
			out[k] = c
			continue
		}
		if !i.truthTerm(mkBin(OpULt, sx.t, bvConst(8, 0x80))) {
			panic(unsupported{"case mapping of symbolic non-ASCII byte"})
		}
		var lo, hi uint64 = 'A', 'Z'
		delta := bvConst(8, 'a'-'A')
		var mapped *Term
		if lower {
			mapped = mkBin(OpAdd, sx.t, delta)
		} else {
			lo, hi = 'a', 'z'
			mapped = mkBin(OpSub, sx.t, delta)
		}
		in := mkBin(OpAnd, mkBin(OpULe, bvConst(8, lo), sx.t), mkBin(OpULe, sx.t, bvConst(8, hi)))
		out[k] = mkSym(mkIte(in, mapped, sx.t), types.Uint8)
	}
	return mkStr(out)
}

func concatAll(parts []value) value {
	var r value = ""
	for _, p := range parts {
		r = strConcat(r, p)
	}
	return r
}

// ---- errors -------------------------------------------------------------------

func methodOf(fr *frame, x iface, name string) *ssa.Function {
	if x.t == nil {
		return nil
	}
	if x.t == errorType || x.t == rtypeType {
		return nil
	}
	ms := fr.i.prog.MethodSets.MethodSet(x.t)
	for k := 0; k < ms.Len(); k++ {
		sel := ms.At(k)
		if sel.Obj().Name() == name {
			return fr.i.prog.MethodValue(sel)
		}
	}
	return nil
}

func errorsIs(fr *frame, err, target iface) value {
	if err.t == nil || target.t == nil {
		return err.t == nil && target.t == nil
	}
	cmp := types.Comparable(target.t)
	for depth := 0; depth < 32; depth++ {
		if cmp && sameType(err.t, target.t) {
			if fr.i.truthTerm(eqTerm(err.t, err.v, target.v)) {
				return true
			}
		}
		if m := methodOf(fr, err, "Is"); m != nil && m.Signature.Params().Len() == 1 {
			r := call(fr.i, fr, token.NoPos, m, []value{err.v, target})
			if fr.i.truth(r) {
				return true
			}
		}
		m := methodOf(fr, err, "Unwrap")
		if m == nil {
			return false
		}
		r := call(fr.i, fr, token.NoPos, m, []value{err.v})
		switch r := r.(type) {
		case iface:
			if r.t == nil {
				return false
			}
			err = r
		case []value:
			for _, e := range r {
				if e.(iface).t == nil {
					continue
				}
				if fr.i.truth(errorsIs(fr, e.(iface), target)) {
					return true
				}
			}
			return false
		default:
			return false
		}
	}
	return false
}

func errorsAs(fr *frame, err, target iface) value {
	if target.t == nil {
		panic(targetPanic{"errors: target cannot be nil"})
	}
	pt, ok := target.t.Underlying().(*types.Pointer)
	if !ok {
		panic(targetPanic{"errors: target must be a non-nil pointer"})
	}
	tt := pt.Elem()
	cell := target.v.(*value)
	for depth := 0; err.t != nil && depth < 32; depth++ {
		if it, ok := tt.Underlying().(*types.Interface); ok {
			if types.Implements(err.t, it) {
				fr.i.set(cell, err)
				return true
			}
		} else if types.Identical(err.t, tt) {
			store(fr.i, tt, cell, err.v)
			return true
		}
		if m := methodOf(fr, err, "As"); m != nil && m.Signature.Params().Len() == 1 {
			if fr.i.truth(call(fr.i, fr, token.NoPos, m, []value{err.v, target})) {
				return true
			}
		}
		m := methodOf(fr, err, "Unwrap")
		if m == nil {
			return false
		}
		r := call(fr.i, fr, token.NoPos, m, []value{err.v})
		switch r := r.(type) {
		case iface:
			err = r
		case []value:
			for _, e := range r {
				if e.(iface).t != nil && fr.i.truth(errorsAs(fr, e.(iface), target)) {
					return true
				}
			}
			return false
		default:
			return false
		}
	}
	return false
}

// ---- fmt ------------------------------------------------------------------------

// formatValue renders one operand for verbs v,s,d,q,x,t,T. Error and Stringer
// methods are called through the interpreter. Symbolic strings keep their
// bytes; a symbolic integer is rendered as the placeholder "<sym>" (the text
// is then approximate: recorded as stub "fmt:approx").
func extRuntimeRand(fr *frame, a []value) value {
	stubHit(fr, "math/rand(arbitrary value)")
	p := fr.i.path
	if p == nil {
		return uint64(4)
	}
	t := p.fresh("rand", 64)
	p.nondets = append(p.nondets, nondetRec{Tag: "rand", Kind: "u64", terms: []*Term{t}})
	return sym{t, types.Uint64}
}

func formatValue(fr *frame, verb rune, flags string, x iface) value {
	return formatValueAt(fr, verb, flags, x, 0)
}

// fmtAddr: the printed address of a pointer is arbitrary (it differs between processes), but the same
// object prints the same address within one execution: fresh symbolic bytes per object and path.
func fmtAddr(fr *frame, p *value) value {
	path := fr.i.path
	if path == nil {
		return "0xPTR"
	}
	if path.addrs == nil {
		path.addrs = map[*value]value{}
	}
	if a, ok := path.addrs[p]; ok {
		return a
	}
	a := strConcat("0x", nondetStr(path, "addr", 4, "str"))
	path.addrs[p] = a
	return a
}

func formatValueAt(fr *frame, verb rune, flags string, x iface, depth int) value {
	if x.t == nil {
		return "<nil>"
	}
	if verb == 'T' {
		return x.t.String()
	}
	if verb != 'd' && verb != 'x' && verb != 't' && verb != 'c' {
		if p, ok := x.v.(*value); ok && p == nil {
			if verb == 's' || verb == 'v' {
				return "<nil>"
			}
		}
		if m := methodOf(fr, x, "Error"); m != nil && m.Signature.Params().Len() == 0 {
			return call(fr.i, fr, token.NoPos, m, []value{x.v})
		}
		if m := methodOf(fr, x, "String"); m != nil && m.Signature.Params().Len() == 0 && m.Signature.Results().Len() == 1 {
			return call(fr.i, fr, token.NoPos, m, []value{x.v})
		}
		if x.t == errorType {
			return x.v
		}
	}
	switch v := x.v.(type) {
	case string:
		if verb == 'q' {
			return strconv.Quote(v)
		}
		if verb == 'x' {
			return fmt.Sprintf("%x", v)
		}
		return v
	case sstr:
		if verb == 'q' {
			return strConcat(strConcat("\"", v), "\"")
		}
		return v
	case sym:
		fr.i.stubsHit["fmt:approx"]++
		return "<sym>"
	case bool, int, int8, int16, int32, int64, uint, uint8, uint16, uint32, uint64, uintptr, float32, float64:
		f := "%" + flags + string(verb)
		return fmt.Sprintf(f, v)
	case []value:
		if sl, ok := x.t.Underlying().(*types.Slice); ok {
			if eb, ok := sl.Elem().Underlying().(*types.Basic); ok && eb.Kind() == types.Byte {
				if verb == 's' {
					return mkStr(v)
				}
				if verb == 'x' || verb == 'v' || verb == 'q' {
					if s, ok := mkStr(v).(string); ok {
						return fmt.Sprintf("%"+string(verb), []byte(s))
					}
				}
			}
			parts := []value{"["}
			for k, e := range v {
				if k > 0 {
					parts = append(parts, " ")
				}
				parts = append(parts, formatValueAt(fr, verb, flags, iface{sl.Elem(), e}, depth+1))
			}
			parts = append(parts, "]")
			return concatAll(parts)
		}
	case iface:
		return formatValueAt(fr, verb, flags, v, depth)
	case *value:
		if v == nil {
			return "<nil>"
		}
		if pt, ok := x.t.Underlying().(*types.Pointer); ok && depth == 0 && verb == 'v' {
			// like fmt: a top-level pointer to a struct prints &{...}; nested pointers print their address
			if _, isStruct := pt.Elem().Underlying().(*types.Struct); isStruct {
				return strConcat("&", formatValueAt(fr, verb, flags, iface{pt.Elem(), *v}, depth+1))
			}
		}
		stubHit(fr, "fmt:pointer-address(arbitrary)")
		return fmtAddr(fr, v)
	case structure:
		if st, ok := x.t.Underlying().(*types.Struct); ok {
			parts := []value{"{"}
			for k, e := range v {
				if k > 0 {
					parts = append(parts, " ")
				}
				if strings.Contains(flags, "+") {
					parts = append(parts, st.Field(k).Name()+":")
				}
				parts = append(parts, formatValueAt(fr, 'v', flags, iface{st.Field(k).Type(), e}, depth+1))
			}
			parts = append(parts, "}")
			return concatAll(parts)
		}
	}
	fr.i.stubsHit["fmt:approx"]++
	return "<" + x.t.String() + ">"
}

func sprintf(fr *frame, format value, args []value, strict bool) value {
	f := mustConcStr(format, "fmt format")
	var parts []value
	argi := 0
	for k := 0; k < len(f); k++ {
		c := f[k]
		if c != '%' {
			j := k
			for j < len(f) && f[j] != '%' {
				j++
			}
			parts = append(parts, f[k:j])
			k = j - 1
			continue
		}
		k++
		if k >= len(f) {
			break
		}
		if f[k] == '%' {
			parts = append(parts, "%")
			continue
		}
		flags := ""
		for k < len(f) && strings.ContainsRune("+-# 0123456789.", rune(f[k])) {
			flags += string(f[k])
			k++
		}
		// explicit argument index: %[n]verb
		if k < len(f) && f[k] == '[' {
			j := strings.IndexByte(f[k:], ']')
			if j < 1 {
				panic(unsupported{"fmt: bad argument index in " + f})
			}
			n, err := strconv.Atoi(f[k+1 : k+j])
			if err != nil || n < 1 {
				panic(unsupported{"fmt: bad argument index in " + f})
			}
			argi = n - 1
			k += j + 1
		}
		if k >= len(f) {
			break
		}
		verb := rune(f[k])
		if argi >= len(args) {
			parts = append(parts, "%!"+string(verb)+"(MISSING)")
			continue
		}
		a := args[argi].(iface)
		argi++
		if verb == 'w' {
			verb = 'v'
		}
		parts = append(parts, formatValue(fr, verb, flags, a))
	}
	return concatAll(parts)
}

// extErrorf builds a *fmt.wrapError (when %w is used) or a *fmt.fmtError-like
// value of type *errors.errorString.
func extErrorf(fr *frame, a []value) value {
	f := mustConcStr(a[0], "fmt.Errorf format")
	args := a[1].([]value)
	msg := sprintf(fr, f, args, false)
	// find the %w operand
	var wrapped *iface
	argi := 0
	for k := 0; k < len(f); k++ {
		if f[k] != '%' {
			continue
		}
		k++
		for k < len(f) && strings.ContainsRune("+-# 0123456789.", rune(f[k])) {
			k++
		}
		if k >= len(f) {
			break
		}
		if f[k] == '%' {
			continue
		}
		if f[k] == 'w' && argi < len(args) && wrapped == nil {
			w := args[argi].(iface)
			wrapped = &w
		}
		argi++
	}
	fmtPkg := fr.i.prog.ImportedPackage("fmt")
	errPkg := fr.i.prog.ImportedPackage("errors")
	if wrapped != nil && wrapped.t != nil && fmtPkg != nil {
		t := fmtPkg.Type("wrapError").Type()
		var cell value = structure{msg, *wrapped}
		return iface{types.NewPointer(t), &cell}
	}
	if errPkg != nil {
		t := errPkg.Type("errorString").Type()
		var cell value = structure{msg}
		return iface{types.NewPointer(t), &cell}
	}
	return iface{errorType, msg}
}

// ---- sort -----------------------------------------------------------------------

func sortSlice(fr *frame, s []value, less value) {
	// insertion sort with the real less closure; swaps are logged
	for a := 1; a < len(s); a++ {
		for b := a; b > 0; b-- {
			if !fr.i.truth(call(fr.i, fr, token.NoPos, less, []value{b, b - 1})) {
				break
			}
			x, y := s[b], s[b-1]
			fr.i.set(&s[b], y)
			fr.i.set(&s[b-1], x)
		}
	}
}

// ---- reflect.DeepEqual -----------------------------------------------------------

func deepEq(t types.Type, x, y value, depth int) *Term {
	if depth > 50 {
		panic(unsupported{"reflect.DeepEqual: too deep (cyclic?)"})
	}
	switch tt := t.Underlying().(type) {
	case *types.Basic:
		return eqTerm(t, x, y)
	case *types.Pointer:
		px, py := x.(*value), y.(*value)
		if px == py {
			return tTrue
		}
		if px == nil || py == nil {
			return tFalse
		}
		return deepEq(tt.Elem(), *px, *py, depth+1)
	case *types.Struct:
		xs, ys := x.(structure), y.(structure)
		r := tTrue
		for k := 0; k < tt.NumFields(); k++ {
			r = mkBin(OpAnd, r, deepEq(tt.Field(k).Type(), xs[k], ys[k], depth+1))
			if r.isFalse() {
				return r
			}
		}
		return r
	case *types.Array:
		xs, ys := x.(array), y.(array)
		r := tTrue
		for k := range xs {
			r = mkBin(OpAnd, r, deepEq(tt.Elem(), xs[k], ys[k], depth+1))
		}
		return r
	case *types.Slice:
		xs, ys := x.([]value), y.([]value)
		if (xs == nil) != (ys == nil) || len(xs) != len(ys) {
			return tFalse
		}
		r := tTrue
		for k := range xs {
			r = mkBin(OpAnd, r, deepEq(tt.Elem(), xs[k], ys[k], depth+1))
			if r.isFalse() {
				return r
			}
		}
		return r
	case *types.Interface:
		xi, yi := x.(iface), y.(iface)
		if xi.t == nil || yi.t == nil {
			return boolConst(xi.t == nil && yi.t == nil)
		}
		if !types.Identical(xi.t, yi.t) {
			return tFalse
		}
		return deepEq(xi.t, xi.v, yi.v, depth+1)
	case *types.Map:
		xm, ym := x.(*omap), y.(*omap)
		if (xm == nil) != (ym == nil) {
			return tFalse
		}
		if xm == ym {
			return tTrue
		}
		if xm.len() != ym.len() {
			return tFalse
		}
		// each key of x must be in y with a deeply equal value; symbolic keys: pairwise formula
		r := tTrue
		for _, ex := range xm.entries {
			if ex.deleted {
				continue
			}
			any := tFalse
			for _, ey := range ym.entries {
				if ey.deleted {
					continue
				}
				k := eqTerm(tt.Key(), ex.key, ey.key)
				if k.isFalse() {
					continue
				}
				any = mkBin(OpOr, any, mkBin(OpAnd, k, deepEq(tt.Elem(), ex.val, ey.val, depth+1)))
			}
			r = mkBin(OpAnd, r, any)
			if r.isFalse() {
				return r
			}
		}
		return r
	case *types.Signature:
		return boolConst(isNilRef(x) && isNilRef(y))
	case *types.Chan:
		return boolConst(x.(*chanv) == y.(*chanv))
	}
	panic(unsupported{"reflect.DeepEqual on " + t.String()})
}

// ---- time -------------------------------------------------------------------------

// extTimeNow returns a time.Time{wall:0, ext:s, loc:nil} with symbolic seconds
// since year 1 in a fixed window (2017..2033), non-decreasing across calls on
// a path; no monotonic reading, zero nanoseconds (stated in evidence).
func extTimeNow(fr *frame, a []value) value {
	stubHit(fr, "time.Now")
	const unixToInternal = (1969*365 + 1969/4 - 1969/100 + 1969/400) * 86400
	if fr.i.path == nil {
		return structure{uint64(0), int64(unixToInternal + 1_700_000_000), (*value)(nil)}
	}
	p := fr.i.path
	t := p.fresh("time.Now", 64)
	p.nondets = append(p.nondets, nondetRec{Tag: "time.Now", Kind: "i64", terms: []*Term{t}})
	lo := bvConst(64, unixToInternal+1_500_000_000)
	hi := bvConst(64, unixToInternal+2_000_000_000)
	c := mkBin(OpAnd, mkBin(OpSLe, lo, t), mkBin(OpSLe, t, hi))
	if fr.i.lastNow != nil {
		c = mkBin(OpAnd, c, mkBin(OpSLe, fr.i.lastNow, t))
	}
	fr.i.lastNow = t
	p.assume(c)
	return structure{uint64(0), sym{t, types.Int64}, (*value)(nil)}
}

// ---- deep copy (mitchellh/copystructure.Copy is reflection-heavy) -----------------

func init() {
	externals["github.com/mitchellh/copystructure.Copy"] = func(fr *frame, a []value) value {
		stubHit(fr, "copystructure.Copy")
		in := a[0].(iface)
		if in.t == nil {
			return tuple{iface{}, iface{}}
		}
		return tuple{iface{in.t, deepCopy(in.t, in.v, map[*value]*value{}, 0)}, iface{}}
	}
}

func deepCopy(t types.Type, v value, memo map[*value]*value, depth int) value {
	if depth > 100 {
		panic(unsupported{"deep copy: too deep"})
	}
	switch tt := t.Underlying().(type) {
	case *types.Pointer:
		p := v.(*value)
		if p == nil {
			return p
		}
		if np, ok := memo[p]; ok {
			return np
		}
		np := new(value)
		memo[p] = np
		*np = deepCopy(tt.Elem(), *p, memo, depth+1)
		return np
	case *types.Struct:
		s, ok := v.(structure)
		if !ok {
			return v
		}
		out := make(structure, len(s))
		for k := range s {
			out[k] = deepCopy(tt.Field(k).Type(), s[k], memo, depth+1)
		}
		return out
	case *types.Array:
		s := v.(array)
		out := make(array, len(s))
		for k := range s {
			out[k] = deepCopy(tt.Elem(), s[k], memo, depth+1)
		}
		return out
	case *types.Slice:
		s := v.([]value)
		if s == nil {
			return s
		}
		out := make([]value, len(s))
		for k := range s {
			out[k] = deepCopy(tt.Elem(), s[k], memo, depth+1)
		}
		return out
	case *types.Map:
		m := v.(*omap)
		if m == nil {
			return m
		}
		out := newOMap(tt.Key())
		for _, e := range m.entries {
			if e.deleted {
				continue
			}
			k := deepCopy(tt.Key(), e.key, memo, depth+1)
			ks, conc := keyString(k)
			ne := &mapEntry{key: k, val: deepCopy(tt.Elem(), e.val, memo, depth+1), conc: conc}
			out.entries = append(out.entries, ne)
			if conc {
				out.idx[ks] = len(out.entries) - 1
			} else {
				out.nsym++
			}
			out.live++
		}
		return out
	case *types.Interface:
		i := v.(iface)
		if i.t == nil {
			return i
		}
		return iface{i.t, deepCopy(i.t, i.v, memo, depth+1)}
	}
	return v
}

// ---- timers: never fire (no goroutines, no real clock) -----------------------------

func init() {
	newTimer := func(fr *frame, typeName string) *value {
		tp := fr.i.prog.ImportedPackage("time")
		var cell value = zero(tp.Type(typeName).Type())
		st := cell.(structure)
		// field C (receive channel) is the first field of Timer and Ticker
		st[0] = &chanv{cap: 1}
		return &cell
	}
	externals["time.AfterFunc"] = func(fr *frame, a []value) value {
		// never fires on its own; verifrt.FireTimers() runs the callbacks that are armed and not stopped
		stubHit(fr, "time.AfterFunc(fires only at verifrt.FireTimers)")
		t := newTimer(fr, "Timer")
		i := fr.i
		old := i.timers
		i.timers = append(append([]*pendingTimer(nil), old...), &pendingTimer{cell: t, fn: a[1]})
		i.onUndo(func() { i.timers = old })
		return t
	}
	externals[rtPkg+"FireTimers"] = func(fr *frame, a []value) value {
		i := fr.i
		pend := i.timers
		i.timers = nil
		i.onUndo(func() { i.timers = pend })
		for _, t := range pend {
			// timers armed by the standard library (crypto/rand's "blocked" warning, ...) stay silent
			var f *ssa.Function
			switch fn := t.fn.(type) {
			case *closure:
				f = fn.Fn
			case *ssa.Function:
				f = fn
			}
			if f != nil && f.Pkg != nil && !strings.Contains(strings.SplitN(f.Pkg.Pkg.Path(), "/", 2)[0], ".") {
				continue
			}
			call(i, fr, token.NoPos, t.fn, nil)
		}
		return nil
	}
	externals["time.NewTimer"] = func(fr *frame, a []value) value {
		stubHit(fr, "time.NewTimer(never fires)")
		return newTimer(fr, "Timer")
	}
	externals["time.NewTicker"] = func(fr *frame, a []value) value {
		stubHit(fr, "time.NewTicker(never fires)")
		return newTimer(fr, "Ticker")
	}
	externals["time.After"] = func(fr *frame, a []value) value {
		stubHit(fr, "time.After(never fires)")
		return &chanv{cap: 1}
	}
	externals["(*time.Timer).Stop"] = func(fr *frame, a []value) value {
		i := fr.i
		tc, _ := a[0].(*value)
		for k, t := range i.timers {
			if t.cell == tc {
				old := i.timers
				nw := append(append([]*pendingTimer(nil), old[:k]...), old[k+1:]...)
				i.timers = nw
				i.onUndo(func() { i.timers = old })
				return true
			}
		}
		return true
	}
	externals["(*time.Timer).Reset"] = func(fr *frame, a []value) value { return true }
	externals["(*time.Ticker).Stop"] = extNoop
	externals["(*time.Ticker).Reset"] = extNoop
}

// ---- net/url: String() of a URL whose path has symbolic bytes -----------------------

func init() {
	externals["(*net/url.URL).String"] = func(fr *frame, a []value) value {
		p := a[0].(*value)
		if p == nil {
			panic(targetPanic{"nil *url.URL"})
		}
		tp := fr.i.prog.ImportedPackage("net/url").Type("URL").Type().Underlying().(*types.Struct)
		st := (*p).(structure)
		get := func(name string) value {
			for k := 0; k < tp.NumFields(); k++ {
				if tp.Field(k).Name() == name {
					return st[k]
				}
			}
			return ""
		}
		// scheme://host/path?query#fragment, without escaping (approximate for
		// bytes that url.String would percent-encode; recorded as a stub)
		stubHit(fr, "url.URL.String(unescaped)")
		var parts []value
		if s := get("Scheme"); strLen(s) > 0 {
			parts = append(parts, s, ":")
		}
		if h := get("Host"); strLen(h) > 0 {
			parts = append(parts, "//", h)
		}
		parts = append(parts, get("Path"))
		if q := get("RawQuery"); strLen(q) > 0 {
			parts = append(parts, "?", q)
		}
		if f := get("Fragment"); strLen(f) > 0 {
			parts = append(parts, "#", f)
		}
		return concatAll(parts)
	}
}

// ---- hashstructure.Hash: a deterministic hash of the deep (concrete) content ----------

func init() {
	// v2 (used by the RPC endpoints to detect "result did not change"): the same structural hash; struct
	// tags (hash:"ignore") are not honoured, so a change confined to an ignored field counts as a change
	externals["github.com/mitchellh/hashstructure/v2.Hash"] = func(fr *frame, a []value) value {
		stubHit(fr, "hashstructure/v2.Hash(structural FNV, hash:\"ignore\" honoured)")
		var sb hashBuf
		if in, ok := a[0].(iface); ok && in.t != nil {
			serialiseT(&sb, in.t, in.v, 0)
		} else {
			serialise(&sb, a[0], 0)
		}
		sb.flush()
		var h uint64 = 14695981039346656037
		for _, c := range sb.chunks {
			if c.t != nil {
				panic(unsupported{"hashstructure/v2.Hash of symbolic content"})
			}
			for k := 0; k < len(c.s); k++ {
				h ^= uint64(c.s[k])
				h *= 1099511628211
			}
		}
		if h == 0 {
			h = 1
		}
		return tuple{h, iface{}}
	}
	externals["github.com/mitchellh/hashstructure.Hash"] = func(fr *frame, a []value) value {
		stubHit(fr, "hashstructure.Hash(structural FNV, hash:\"ignore\" honoured)")
		var sb hashBuf
		if in, ok := a[0].(iface); ok && in.t != nil {
			serialiseT(&sb, in.t, in.v, 0)
		} else {
			serialise(&sb, a[0], 0)
		}
		sb.flush()
		var h uint64 = 14695981039346656037
		var ht *Term // non-nil once a symbolic byte has been folded in
		for _, c := range sb.chunks {
			if c.t != nil {
				if ht == nil {
					ht = bvConst(64, h)
				}
				ht = mkBin(OpMul, mkBin(OpXor, ht, mkZExt(c.t, 64)), bvConst(64, 1099511628211))
				continue
			}
			for k := 0; k < len(c.s); k++ {
				if ht != nil {
					ht = mkBin(OpMul, mkBin(OpXor, ht, bvConst(64, uint64(c.s[k]))), bvConst(64, 1099511628211))
				} else {
					h ^= uint64(c.s[k])
					h *= 1099511628211
				}
			}
		}
		if ht != nil {
			return tuple{mkSym(ht, types.Uint64), iface{}}
		}
		if h == 0 {
			h = 1
		}
		return tuple{h, iface{}}
	}
}

// serialiseT is serialise guided by the static type, so that struct fields tagged hash:"ignore" or
// hash:"-" are left out as hashstructure does.
func serialiseT(sb *hashBuf, t types.Type, v value, depth int) {
	if depth > 60 {
		panic(unsupported{"hash: structure too deep"})
	}
	switch tt := t.Underlying().(type) {
	case *types.Struct:
		st, ok := v.(structure)
		if !ok {
			serialise(sb, v, depth)
			return
		}
		sb.WriteString("{")
		for k := 0; k < tt.NumFields(); k++ {
			tag := reflect.StructTag(tt.Tag(k)).Get("hash")
			if tag == "ignore" || tag == "-" {
				continue
			}
			serialiseT(sb, tt.Field(k).Type(), st[k], depth+1)
		}
		sb.WriteString("}")
	case *types.Pointer:
		p, ok := v.(*value)
		if !ok {
			serialise(sb, v, depth)
			return
		}
		if p == nil {
			sb.WriteString("nilp;")
			return
		}
		sb.WriteString("&")
		serialiseT(sb, tt.Elem(), *p, depth+1)
	case *types.Slice:
		xs, ok := v.([]value)
		if !ok {
			serialise(sb, v, depth)
			return
		}
		fmt.Fprintf(sb, "s%d[", len(xs))
		for _, x := range xs {
			serialiseT(sb, tt.Elem(), x, depth+1)
		}
		sb.WriteString("]")
	case *types.Interface:
		in, ok := v.(iface)
		if !ok || in.t == nil {
			serialise(sb, v, depth)
			return
		}
		sb.WriteString("i<" + in.t.String() + ">")
		serialiseT(sb, in.t, in.v, depth+1)
	default:
		serialise(sb, v, depth)
	}
}

// hashBuf collects the serialised content: concrete text and symbolic bytes.
type hashChunk struct {
	s string
	t *Term // an 8-bit term
}
type hashBuf struct {
	strings.Builder
	chunks []hashChunk
}

func (b *hashBuf) flush() {
	if b.Len() > 0 {
		b.chunks = append(b.chunks, hashChunk{s: b.String()})
		b.Reset()
	}
}
func (b *hashBuf) symByte(t *Term) {
	b.flush()
	b.chunks = append(b.chunks, hashChunk{t: t})
}

func serialise(sb *hashBuf, v value, depth int) {
	if depth > 60 {
		panic(unsupported{"hash: structure too deep"})
	}
	switch v := v.(type) {
	case sym:
		t := v.t
		if t.w == 0 {
			t = mkIte(t, bvConst(8, 1), bvConst(8, 0))
		}
		sb.WriteString("y")
		for lo := uint8(0); lo < t.w; lo += 8 {
			sb.symByte(mkExtract(t, lo+7, lo))
		}
		sb.WriteString(";")
	case sstr:
		n := strLen(v)
		fmt.Fprintf(sb, "q%d:", n)
		for k := 0; k < n; k++ {
			sb.symByte(toTerm(strByte(v, k)))
		}
		sb.WriteString(";")
	case nil:
		sb.WriteString("nil;")
	case *value:
		if v == nil {
			sb.WriteString("nilp;")
			return
		}
		sb.WriteString("&")
		serialise(sb, *v, depth+1)
	case structure:
		sb.WriteString("{")
		for _, f := range v {
			serialise(sb, f, depth+1)
		}
		sb.WriteString("}")
	case array:
		sb.WriteString("[")
		for _, f := range v {
			serialise(sb, f, depth+1)
		}
		sb.WriteString("]")
	case []value:
		fmt.Fprintf(sb, "s%d[", len(v))
		for _, f := range v {
			serialise(sb, f, depth+1)
		}
		sb.WriteString("]")
	case iface:
		if v.t == nil {
			sb.WriteString("nili;")
			return
		}
		sb.WriteString("i<" + v.t.String() + ">")
		serialise(sb, v.v, depth+1)
	case *omap:
		if v == nil {
			sb.WriteString("nilm;")
			return
		}
		var parts []string
		for _, e := range v.entries {
			if e.deleted {
				continue
			}
			var eb hashBuf
			serialise(&eb, e.key, depth+1)
			eb.WriteString("=>")
			serialise(&eb, e.val, depth+1)
			if len(eb.chunks) > 0 {
				panic(unsupported{"hashstructure.Hash of a map with symbolic content"})
			}
			parts = append(parts, eb.String())
		}
		sort.Strings(parts)
		sb.WriteString("m{" + strings.Join(parts, ",") + "}")
	case string:
		fmt.Fprintf(sb, "q%d:%s;", len(v), v)
	case *ssa.Function, *closure, *chanv, unsafePtr:
		sb.WriteString("ref;")
	default:
		fmt.Fprintf(sb, "%T:%v;", v, v)
	}
}
