// Copyright 2013 The Go Authors. All rights reserved.
// Use of this source code is governed by a BSD-style
// license that can be found in the LICENSE file.

// Package interp is a symbolic interpreter for the SSA form of Go programs,
// derived from golang.org/x/tools/go/ssa/interp (BSD licence). Scalars may be
// SMT terms; the heap keeps its concrete shape; branches on symbolic
// conditions fork by deterministic re-execution (explore.go); every mutation
// of a pre-existing cell is logged so the state built by a harness's setup
// phase is restored after each path.
package interp

import (
	"fmt"
	"go/token"
	"go/types"
	"os"
	"runtime"
	"runtime/debug"
	"slices"
	"strings"
	"sync"

	"golang.org/x/tools/go/ssa"
)

var debugConc = os.Getenv("GOSYM_DEBUG_CONC") != ""

type continuation int

const (
	kNext continuation = iota
	kReturn
	kJump
)

type Mode uint

const (
	DisableRecover Mode = 1 << iota
	EnableTracing
)

type methodSet map[string]*ssa.Function

type undoRec struct {
	addr *value
	old  value
}

// State of one worker's interpreter (not shared between workers).
// pendingTimer is an armed time.AfterFunc timer.
type pendingTimer struct {
	cell *value
	fn   value
}

type interpreter struct {
	prog               *ssa.Program
	globals            map[*ssa.Global]*value
	mode               Mode
	reflectPackage     *ssa.Package
	errorMethods       methodSet
	rtypeMethods       methodSet
	runtimeErrorString types.Type
	sizes              types.Sizes

	path     *pathCtx
	logging  bool
	undo     []undoRec
	undoFns  []func()
	inited   map[*ssa.Package]int // 0 none, 1 running, 2 done
	initBad  map[*ssa.Package]string
	initing  int
	replaced map[string]value // per-path function replacements (verifrt.Replace)
	setupReplaced map[string]value // those installed by the harness's setup part
	steps    int64
	maxSteps int64
	depth    int
	funcsHit map[*ssa.Function]int
	stubsHit map[string]int
	timers   []*pendingTimer // armed time.AfterFunc callbacks (run by verifrt.FireTimers)
	timeNow  int // counter of symbolic clock readings
	lastNow  *Term
	notes    map[string]string
	thorough bool
	uniq     map[string]*value // unique.Make canonical values (never rolled back: canonical by value)
	curFn    *ssa.Function
	curInstr ssa.Instruction
	curFrame *frame
	fnInfo   map[*ssa.Function]*fnInfo
	regInfos map[*ssa.Function]*regInfo
	regPool  [][][]value
}

// regInfo numbers the SSA values of a function (registers of a frame).
type regInfo struct {
	reg map[ssa.Value]int
	n   int
}

func (i *interpreter) regInfo(fn *ssa.Function) *regInfo {
	if ri, ok := i.regInfos[fn]; ok {
		return ri
	}
	ri := &regInfo{reg: map[ssa.Value]int{}}
	add := func(v ssa.Value) {
		if _, ok := ri.reg[v]; !ok {
			ri.reg[v] = ri.n
			ri.n++
		}
	}
	for _, p := range fn.Params {
		add(p)
	}
	for _, fv := range fn.FreeVars {
		add(fv)
	}
	for _, l := range fn.Locals {
		add(l)
	}
	for _, b := range fn.Blocks {
		for _, in := range b.Instrs {
			if v, ok := in.(ssa.Value); ok {
				add(v)
			}
		}
	}
	i.regInfos[fn] = ri
	return ri
}

func regBucket(n int) int {
	b := 0
	for c := 8; c < n; c <<= 1 {
		b++
	}
	return b
}

// getRegs returns a zeroed register file of length n from the worker's pool.
func (i *interpreter) getRegs(n int) []value {
	b := regBucket(n)
	if b < len(i.regPool) {
		if l := len(i.regPool[b]); l > 0 {
			r := i.regPool[b][l-1]
			i.regPool[b] = i.regPool[b][:l-1]
			return r[:n]
		}
	}
	return make([]value, n, 8<<b)
}

func (i *interpreter) putRegs(r []value) {
	if r == nil {
		return
	}
	r = r[:cap(r)]
	clear(r)
	b := regBucket(cap(r))
	for len(i.regPool) <= b {
		i.regPool = append(i.regPool, nil)
	}
	if len(i.regPool[b]) < 256 {
		i.regPool[b] = append(i.regPool[b], r)
	}
}

func (fr *frame) ix(v ssa.Value) int {
	k, ok := fr.fi.reg[v]
	if !ok {
		panic(fmt.Sprintf("no register for %T %s in %s", v, v.Name(), fr.fn))
	}
	return k
}

type fnInfo struct {
	name string
	ext  externalFn
}

type deferred struct {
	fn    value
	args  []value
	instr *ssa.Defer
	tail  *deferred
}

type frame struct {
	i                *interpreter
	caller           *frame
	fn               *ssa.Function
	block, prevBlock *ssa.BasicBlock
	regs             []value
	fi               *regInfo
	locals           []value
	defers           *deferred
	result           value
	panicking        bool
	panic            any
	phitemps         []value
	depth            int
}

func mustDeref(t types.Type) types.Type {
	if p, ok := t.Underlying().(*types.Pointer); ok {
		return p.Elem()
	}
	panic(fmt.Sprintf("mustDeref: %s is not a pointer", t))
}

// set writes a cell, logging the old value while a path is running.
func (i *interpreter) set(addr *value, v value) {
	if i.logging {
		i.undo = append(i.undo, undoRec{addr, *addr})
	}
	*addr = v
}

func (i *interpreter) onUndo(f func()) {
	if i.logging {
		i.undoFns = append(i.undoFns, f)
	}
}

// rollback restores every cell written since logging was switched on.
func (i *interpreter) rollback() {
	for k := len(i.undoFns) - 1; k >= 0; k-- {
		i.undoFns[k]()
	}
	i.undoFns = i.undoFns[:0]
	for k := len(i.undo) - 1; k >= 0; k-- {
		*i.undo[k].addr = i.undo[k].old
	}
	i.undo = i.undo[:0]
}

func (fr *frame) get(key ssa.Value) value {
	switch key := key.(type) {
	case nil:
		return nil
	case *ssa.Function, *ssa.Builtin:
		return key
	case *ssa.Const:
		return constValue(key)
	case *ssa.Global:
		if key.Pkg != nil {
			fr.i.ensureInit(key.Pkg)
		}
		if r, ok := fr.i.globals[key]; ok {
			return r
		}
		// instantiated generics' globals etc.
		cell := zero(mustDeref(key.Type()))
		fr.i.globals[key] = &cell
		return &cell
	}
	if k, ok := fr.fi.reg[key]; ok {
		return fr.regs[k]
	}
	panic(fmt.Sprintf("get: no value for %T: %v", key, key.Name()))
}

// ensureInit runs the initialiser of pkg (package-level var initialisers and
// init functions) once per worker, lazily, outside the undo log. Calls to the
// initialisers of imported packages are skipped: those run when first touched.
func (i *interpreter) ensureInit(pkg *ssa.Package) {
	if i.inited[pkg] != 0 {
		return
	}
	i.inited[pkg] = 1
	initFn := pkg.Func("init")
	if initFn == nil || initFn.Blocks == nil {
		i.inited[pkg] = 2
		return
	}
	savedLog, savedPath := i.logging, i.path
	savedUndo := len(i.undo)
	i.logging = false
	i.path = nil
	i.initing++
	savedDepth := i.depth
	func() {
		defer func() {
			if r := recover(); r != nil {
				i.depth = savedDepth
				msg := fmt.Sprint(r)
				if tp, ok := r.(targetPanic); ok {
					msg = "panic: " + toString(tp.v)
				}
				if u, ok := r.(unsupported); ok {
					msg = u.msg
				}
				i.initBad[pkg] = msg
				for _, m := range pkg.Members {
					if g, ok := m.(*ssa.Global); ok {
						if c, ok := i.globals[g]; !ok || isZeroish(*c) {
							cell := value(poison{"initialiser of " + pkg.Pkg.Path() + " aborted: " + msg})
							i.globals[g] = &cell
						}
					}
				}
				if os.Getenv("GOSYM_DEBUG_INIT") != "" {
					fmt.Fprintf(os.Stderr, "init of %s incomplete: %s\n", pkg.Pkg.Path(), msg)
				}
			}
		}()
		call(i, nil, token.NoPos, initFn, nil)
	}()
	i.initing--
	i.logging, i.path = savedLog, savedPath
	_ = savedUndo
	i.inited[pkg] = 2
}

// poison marks a value that could not be computed during package
// initialisation; using it on a path aborts the path as unsupported.
type poison struct{ why string }

func (fr *frame) runDefer(d *deferred) {
	var ok bool
	defer func() {
		if !ok {
			r := recover()
			if isControl(r) {
				panic(r)
			}
			fr.panicking = true
			fr.panic = r
		}
	}()
	call(fr.i, fr, d.instr.Pos(), d.fn, d.args)
	ok = true
}

// isControl reports whether a Go panic value is an engine control signal
// (path end / unsupported) that target code must not intercept.
func isControl(r any) bool {
	switch r.(type) {
	case pathEnd, unsupported:
		return true
	}
	return false
}

func (fr *frame) runDefers() {
	for d := fr.defers; d != nil; d = d.tail {
		fr.runDefer(d)
	}
	fr.defers = nil
	if fr.panicking {
		panic(fr.panic)
	}
}

func lookupMethod(i *interpreter, typ types.Type, meth *types.Func) *ssa.Function {
	switch typ {
	case rtypeType:
		return i.rtypeMethods[meth.Id()]
	case errorType:
		return i.errorMethods[meth.Id()]
	}
	return i.prog.LookupMethod(typ, meth.Pkg(), meth.Name())
}

// truth returns the Go truth value of v, forking on symbolic conditions.
func (i *interpreter) truth(v value) bool {
	switch v := v.(type) {
	case bool:
		return v
	case sym:
		return i.truthTerm(v.t)
	}
	panic(fmt.Sprintf("truth: %T", v))
}

func (i *interpreter) truthTerm(t *Term) bool {
	if t.isConst() {
		return t.isTrue()
	}
	if i.path == nil {
		panic(unsupported{"symbolic branch outside a path"})
	}
	return i.path.branch(t)
}

// concInt returns a concrete int64 for an integer value, enumerating the
// feasible values of a symbolic one by forking.
func (i *interpreter) concInt(v value) int64 {
	if s, ok := v.(sym); ok {
		if i.path == nil {
			panic(unsupported{"symbolic index outside a path"})
		}
		if debugConc && i.curFn != nil {
			chain := ""
			for f, k := i.curFrame, 0; f != nil && k < 8; f, k = f.caller, k+1 {
				chain += " < " + f.fn.Name()
			}
			fmt.Fprintf(os.Stderr, "concretize in %s at %v (%s)%s\n", i.curFn, i.curInstr, i.prog.Fset.Position(i.curInstr.Pos()), chain)
		}
		u := i.path.concretize(s.t)
		if kindSigned(s.k) {
			return signExt(u, s.t.w)
		}
		return int64(u)
	}
	return asInt64(v)
}

func visitInstr(fr *frame, instr ssa.Instruction) continuation {
	i := fr.i
	switch instr := instr.(type) {
	case *ssa.DebugRef:
		// no-op

	case *ssa.UnOp:
		fr.regs[fr.ix(instr)] = unop(fr, instr, fr.get(instr.X))

	case *ssa.BinOp:
		fr.regs[fr.ix(instr)] = binop(i, instr.Op, instr.X.Type(), fr.get(instr.X), fr.get(instr.Y))

	case *ssa.Call:
		fn, args := prepareCall(fr, &instr.Call)
		fr.regs[fr.ix(instr)] = call(fr.i, fr, instr.Pos(), fn, args)

	case *ssa.ChangeInterface:
		fr.regs[fr.ix(instr)] = fr.get(instr.X)

	case *ssa.ChangeType:
		fr.regs[fr.ix(instr)] = fr.get(instr.X)

	case *ssa.Convert:
		fr.regs[fr.ix(instr)] = conv(i, instr.Type(), instr.X.Type(), fr.get(instr.X))

	case *ssa.SliceToArrayPointer:
		fr.regs[fr.ix(instr)] = sliceToArrayPointer(instr.Type(), instr.X.Type(), fr.get(instr.X))

	case *ssa.MakeInterface:
		fr.regs[fr.ix(instr)] = iface{t: instr.X.Type(), v: fr.get(instr.X)}

	case *ssa.Extract:
		fr.regs[fr.ix(instr)] = fr.get(instr.Tuple).(tuple)[instr.Index]

	case *ssa.Slice:
		fr.regs[fr.ix(instr)] = slice(i, fr.get(instr.X), fr.get(instr.Low), fr.get(instr.High), fr.get(instr.Max))

	case *ssa.Return:
		switch len(instr.Results) {
		case 0:
		case 1:
			fr.result = fr.get(instr.Results[0])
		default:
			var res []value
			for _, r := range instr.Results {
				res = append(res, fr.get(r))
			}
			fr.result = tuple(res)
		}
		fr.block = nil
		return kReturn

	case *ssa.RunDefers:
		fr.runDefers()

	case *ssa.Panic:
		panic(targetPanic{fr.get(instr.X)})

	case *ssa.Send:
		chanSend(i, fr.get(instr.Chan).(*chanv), fr.get(instr.X))

	case *ssa.Store:
		addr := fr.get(instr.Addr).(*value)
		if addr == nil {
			panic(targetPanic{"runtime error: invalid memory address or nil pointer dereference (store)"})
		}
		store(i, mustDeref(instr.Addr.Type()), addr, fr.get(instr.Val))

	case *ssa.If:
		succ := 1
		if i.truth(fr.get(instr.Cond)) {
			succ = 0
		}
		fr.prevBlock, fr.block = fr.block, fr.block.Succs[succ]
		return kJump

	case *ssa.Jump:
		fr.prevBlock, fr.block = fr.block, fr.block.Succs[0]
		return kJump

	case *ssa.Defer:
		fn, args := prepareCall(fr, &instr.Call)
		defers := &fr.defers
		if into := fr.get(instr.DeferStack); into != nil {
			defers = into.(**deferred)
		}
		*defers = &deferred{
			fn:    fn,
			args:  args,
			instr: instr,
			tail:  *defers,
		}

	case *ssa.Go:
		fn, _ := prepareCall(fr, &instr.Call)
		name := "?"
		switch f := fn.(type) {
		case *ssa.Function:
			name = f.String()
		case *closure:
			name = f.Fn.String()
		}
		if i.goIgnored(name, fr.fn.String()) {
			break
		}
		panic(unsupported{"go statement in " + fr.fn.String() + " starting " + name})

	case *ssa.MakeChan:
		fr.regs[fr.ix(instr)] = &chanv{cap: int(i.concInt(fr.get(instr.Size)))}

	case *ssa.Alloc:
		var addr *value
		if instr.Heap {
			addr = new(value)
			fr.regs[fr.ix(instr)] = addr
			*addr = zero(mustDeref(instr.Type()))
		} else {
			addr = fr.regs[fr.ix(instr)].(*value)
			i.set(addr, zero(mustDeref(instr.Type())))
		}

	case *ssa.MakeSlice:
		n := i.concInt(fr.get(instr.Cap))
		l := i.concInt(fr.get(instr.Len))
		if n < 0 || l < 0 || l > n || n > 1<<24 {
			panic(targetPanic{"runtime error: makeslice: len out of range"})
		}
		slice := make([]value, n)
		tElt := instr.Type().Underlying().(*types.Slice).Elem()
		for k := range slice {
			slice[k] = zero(tElt)
		}
		fr.regs[fr.ix(instr)] = slice[:l]

	case *ssa.MakeMap:
		fr.regs[fr.ix(instr)] = newOMap(instr.Type().Underlying().(*types.Map).Key())

	case *ssa.Range:
		fr.regs[fr.ix(instr)] = rangeIter(i, fr.get(instr.X))

	case *ssa.Next:
		fr.regs[fr.ix(instr)] = fr.get(instr.Iter).(iter).next()

	case *ssa.FieldAddr:
		p := fr.get(instr.X).(*value)
		if p == nil {
			panic(targetPanic{"runtime error: invalid memory address or nil pointer dereference (field " + fieldName(instr) + " in " + fr.fn.String() + ")"})
		}
		fr.regs[fr.ix(instr)] = &(*p).(structure)[instr.Field]

	case *ssa.Field:
		fr.regs[fr.ix(instr)] = fr.get(instr.X).(structure)[instr.Field]

	case *ssa.IndexAddr:
		x := fr.get(instr.X)
		idx := i.concInt(fr.get(instr.Index))
		switch x := x.(type) {
		case []value:
			if idx < 0 || idx >= int64(len(x)) {
				panic(targetPanic{fmt.Sprintf("runtime error: index out of range [%d] with length %d", idx, len(x))})
			}
			fr.regs[fr.ix(instr)] = &x[idx]
		case *value: // *array
			if x == nil {
				panic(targetPanic{"runtime error: nil array pointer dereference"})
			}
			a := (*x).(array)
			if idx < 0 || idx >= int64(len(a)) {
				panic(targetPanic{fmt.Sprintf("runtime error: index out of range [%d] with length %d", idx, len(a))})
			}
			fr.regs[fr.ix(instr)] = &a[idx]
		default:
			panic(fmt.Sprintf("unexpected x type in IndexAddr: %T", x))
		}

	case *ssa.Index:
		x := fr.get(instr.X)
		idx := i.concInt(fr.get(instr.Index))
		switch x := x.(type) {
		case array:
			if idx < 0 || idx >= int64(len(x)) {
				panic(targetPanic{fmt.Sprintf("runtime error: index out of range [%d] with length %d", idx, len(x))})
			}
			fr.regs[fr.ix(instr)] = x[idx]
		case string, sstr:
			if idx < 0 || idx >= int64(strLen(x)) {
				panic(targetPanic{fmt.Sprintf("runtime error: index out of range [%d] with length %d", idx, strLen(x))})
			}
			fr.regs[fr.ix(instr)] = strByte(x, int(idx))
		default:
			panic(fmt.Sprintf("unexpected x type in Index: %T", x))
		}

	case *ssa.Lookup:
		fr.regs[fr.ix(instr)] = lookup(i, instr, fr.get(instr.X), fr.get(instr.Index))

	case *ssa.MapUpdate:
		m := fr.get(instr.Map).(*omap)
		if m == nil {
			panic(targetPanic{"assignment to entry in nil map"})
		}
		m.insert(i, fr.get(instr.Key), fr.get(instr.Value))

	case *ssa.TypeAssert:
		fr.regs[fr.ix(instr)] = typeAssert(instr, fr.get(instr.X).(iface))

	case *ssa.MakeClosure:
		var bindings []value
		for _, binding := range instr.Bindings {
			bindings = append(bindings, fr.get(binding))
		}
		fr.regs[fr.ix(instr)] = &closure{instr.Fn.(*ssa.Function), bindings}

	case *ssa.Phi:
		panic("unreachable: phi")

	case *ssa.Select:
		fr.regs[fr.ix(instr)] = doSelect(fr, instr)

	default:
		panic(fmt.Sprintf("unexpected instruction: %T", instr))
	}
	return kNext
}

func fieldName(instr *ssa.FieldAddr) string {
	if st, ok := mustDeref(instr.X.Type()).Underlying().(*types.Struct); ok {
		return st.Field(instr.Field).Name()
	}
	return "?"
}

func prepareCall(fr *frame, call *ssa.CallCommon) (fn value, args []value) {
	v := fr.get(call.Value)
	if call.Method == nil {
		fn = v
	} else {
		recv := v.(iface)
		if recv.t == nil {
			panic(targetPanic{"runtime error: invalid memory address or nil pointer dereference (method " + call.Method.Name() + " on nil interface in " + fr.fn.String() + ")"})
		}
		if f := lookupMethod(fr.i, recv.t, call.Method); f == nil {
			panic(fmt.Sprintf("method set for dynamic type %v does not contain %s", recv.t, call.Method))
		} else {
			fn = f
		}
		args = append(args, recv.v)
	}
	for _, arg := range call.Args {
		args = append(args, fr.get(arg))
	}
	return
}

func call(i *interpreter, caller *frame, callpos token.Pos, fn value, args []value) value {
	switch fn := fn.(type) {
	case *ssa.Function:
		if fn == nil {
			panic(targetPanic{"runtime error: call of nil function"})
		}
		return callSSA(i, caller, callpos, fn, args, nil)
	case *closure:
		return callSSA(i, caller, callpos, fn.Fn, args, fn.Env)
	case *ssa.Builtin:
		return callBuiltin(caller, fn, args)
	}
	panic(fmt.Sprintf("cannot call %T", fn))
}

func loc(fset *token.FileSet, pos token.Pos) string {
	if pos == token.NoPos {
		return ""
	}
	return " at " + fset.Position(pos).String()
}

const maxDepth = 400

func callSSA(i *interpreter, caller *frame, callpos token.Pos, fn *ssa.Function, args []value, env []value) value {
	if i.mode&EnableTracing != 0 {
		fset := fn.Prog.Fset
		fmt.Fprintf(os.Stderr, "Entering %s%s.\n", fn, loc(fset, fn.Pos()))
		defer fmt.Fprintf(os.Stderr, "Leaving %s.\n", fn)
	}
	fr := &frame{
		i:      i,
		caller: caller,
		fn:     fn,
	}
	if fn.Parent() == nil {
		fi, ok := i.fnInfo[fn]
		if !ok {
			name := fn.String()
			fi = &fnInfo{name: name, ext: lookupExternal(fn, name)}
			i.fnInfo[fn] = fi
		}
		if len(i.replaced) > 0 {
			if r, ok := i.replaced[fi.name]; ok {
				i.stubsHit[fi.name]++
				return call(i, caller, callpos, r, args)
			}
		}
		if fi.ext != nil {
			return fi.ext(fr, args)
		}
		if fn.Blocks == nil {
			panic(unsupported{"no code for function: " + fi.name})
		}
		if fn.Pkg != nil && i.inited[fn.Pkg] != 2 {
			i.ensureInit(fn.Pkg)
		}
	}
	if fn.TypeParams().Len() > 0 && len(fn.TypeArgs()) == 0 {
		panic(unsupported{"uninstantiated generic function " + fn.String()})
	}
	i.depth++
	fr.depth = i.depth
	if i.depth > maxDepth {
		panic(unsupported{"call depth exceeded in " + fn.String()})
	}
	if i.funcsHit != nil && i.initing == 0 {
		i.funcsHit[fn]++
	}

	fr.fi = i.regInfo(fn)
	fr.regs = i.getRegs(fr.fi.n)
	fr.block = fn.Blocks[0]
	fr.locals = make([]value, len(fn.Locals))
	for k, l := range fn.Locals {
		fr.locals[k] = zero(mustDeref(l.Type()))
		fr.regs[fr.ix(l)] = &fr.locals[k]
	}
	for k, p := range fn.Params {
		fr.regs[fr.ix(p)] = args[k]
	}
	for k, fv := range fn.FreeVars {
		fr.regs[fr.ix(fv)] = env[k]
	}
	for fr.block != nil {
		runFrame(fr)
	}
	i.putRegs(fr.regs)
	fr.regs = nil
	i.depth--
	return fr.result
}

func runFrame(fr *frame) {
	defer func() {
		if fr.block == nil {
			return // normal return
		}
		r := recover()
		if isControl(r) {
			panic(r) // engine control flow: never visible to target code
		}
		if _, ok := r.(targetPanic); !ok {
			if _, ok := r.(runtime.Error); !ok {
				if _, ok := r.(string); !ok {
					panic(r)
				}
			}
			// engine-internal failure: annotate and propagate, skipping target defers
			panic(engineError{fmt.Sprint(r), fr.fn.String(), string(debug.Stack())})
		}
		fr.panicking = true
		fr.panic = r
		fr.runDefers()
		fr.i.depth = fr.depth
		fr.block = fr.fn.Recover
	}()

	i := fr.i
	for {
		nonPhis := executePhis(fr)
		for _, instr := range nonPhis {
			if i.mode&EnableTracing != 0 {
				if v, ok := instr.(ssa.Value); ok {
					fmt.Fprintln(os.Stderr, "\t", v.Name(), "=", instr)
				} else {
					fmt.Fprintln(os.Stderr, "\t", instr)
				}
			}
			i.steps++
			i.curFn = fr.fn
			i.curFrame = fr
			i.curInstr = instr
			if i.steps > i.maxSteps && i.initing == 0 {
				panic(unsupported{"step budget exceeded (possible non-termination) in " + fr.fn.String()})
			}
			if fr.caller == nil && i.initing > 0 && fr.fn.Synthetic == "package initializer" {
				if k, ok := visitInitInstr(fr, instr); ok {
					if k == kReturn {
						return
					}
					continue
				}
			}
			if visitInstr(fr, instr) == kReturn {
				return
			}
		}
	}
}

// visitInitInstr executes one instruction of a package initialiser; an
// instruction that cannot be interpreted yields a poison value instead of
// aborting the whole initialiser (control-flow instructions still abort).
func visitInitInstr(fr *frame, instr ssa.Instruction) (k continuation, ok bool) {
	switch instr.(type) {
	case *ssa.If, *ssa.Jump, *ssa.Return, *ssa.RunDefers, *ssa.Panic:
		return 0, false
	}
	defer func() {
		if r := recover(); r != nil {
			fr.i.depth = fr.depth
			why := panicString(r) + " [while initialising " + fr.fn.Pkg.Pkg.Path() + " at " + fr.i.prog.Fset.Position(instr.Pos()).String() + "]"
			if v, isv := instr.(ssa.Value); isv {
				var pv value = poison{why}
				if tup, okt := v.Type().(*types.Tuple); okt && tup.Len() > 1 {
					t := make(tuple, tup.Len())
					for j := range t {
						t[j] = poison{why}
					}
					pv = t
				}
				fr.regs[fr.ix(v)] = pv
			} else if st, iss := instr.(*ssa.Store); iss {
				if addr, oka := fr.get(st.Addr).(*value); oka && addr != nil {
					*addr = poison{why}
				} else if g, okg := st.Addr.(*ssa.Global); okg {
					cell := value(poison{why})
					fr.i.globals[g] = &cell
				}
			}
			if os.Getenv("GOSYM_DEBUG_INIT") != "" {
				fmt.Fprintf(os.Stderr, "init %s: poisoned %v: %s\n", fr.fn.Pkg.Pkg.Path(), instr, why)
			}
			k, ok = kNext, true
		}
	}()
	return visitInstr(fr, instr), true
}

type engineError struct {
	msg, fn, stack string
}

func (e engineError) String() string { return "engine error in " + e.fn + ": " + e.msg }

func executePhis(fr *frame) []ssa.Instruction {
	firstNonPhi := -1
	for i, instr := range fr.block.Instrs {
		if _, ok := instr.(*ssa.Phi); !ok {
			firstNonPhi = i
			break
		}
	}
	nonPhis := fr.block.Instrs[firstNonPhi:]
	if firstNonPhi > 0 {
		phis := fr.block.Instrs[:firstNonPhi]
		predIndex := slices.Index(fr.block.Preds, fr.prevBlock)
		fr.phitemps = fr.phitemps[:0]
		for _, phi := range phis {
			phi := phi.(*ssa.Phi)
			fr.phitemps = append(fr.phitemps, fr.get(phi.Edges[predIndex]))
		}
		for i, phi := range phis {
			fr.regs[fr.ix(phi.(*ssa.Phi))] = fr.phitemps[i]
		}
	}
	return nonPhis
}

func doRecover(caller *frame) value {
	if caller.i.mode&DisableRecover == 0 &&
		caller != nil && !caller.panicking &&
		caller.caller != nil && caller.caller.panicking {
		caller.caller.panicking = false
		p := caller.caller.panic
		caller.caller.panic = nil
		switch p := p.(type) {
		case targetPanic:
			if s, ok := p.v.(string); ok {
				return iface{caller.i.runtimeErrorString, s}
			}
			return p.v
		default:
			panic(fmt.Sprintf("unexpected panic type %T in target call to recover()", p))
		}
	}
	return iface{}
}

// ---- program-level setup -----------------------------------------------------

var reflectOnce sync.Once

// newInterpreter creates a worker-private interpreter over a shared program.
func newInterpreter(prog *ssa.Program, sizes types.Sizes) *interpreter {
	i := &interpreter{
		prog:     prog,
		globals:  make(map[*ssa.Global]*value),
		sizes:    sizes,
		inited:   map[*ssa.Package]int{},
		initBad:  map[*ssa.Package]string{},
		maxSteps: 20_000_000,
		funcsHit: map[*ssa.Function]int{},
		stubsHit: map[string]int{},
		fnInfo:   map[*ssa.Function]*fnInfo{},
		regInfos: map[*ssa.Function]*regInfo{},
	}
	if runtimePkg := prog.ImportedPackage("runtime"); runtimePkg != nil {
		i.runtimeErrorString = runtimePkg.Type("errorString").Object().Type()
	}
	initReflect(i)
	return i
}

// describePanic renders a target panic value.
func describePanic(v value) string {
	s := toString(v)
	if len(s) > 300 {
		s = s[:300]
	}
	return strings.ReplaceAll(s, "\n", " ")
}

func isZeroish(v value) bool {
	switch v := v.(type) {
	case *value:
		return v == nil
	case iface:
		return v.t == nil
	case *omap:
		return v == nil
	case []value:
		return v == nil
	case *ssa.Function:
		return v == nil
	case *chanv:
		return v == nil
	}
	return false
}
