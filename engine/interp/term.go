package interp

// SMT terms: bit-vectors (width 1..64) and Bool. Immutable DAG nodes with
// constant folding and light simplification in the smart constructors, so that
// fully concrete computations never reach the solver.

import (
	"fmt"
	"strings"
	"sync/atomic"
)

type Op uint8

const (
	OpConst Op = iota // BV const (k) or Bool const (k=0/1, w=0)
	OpVar
	OpAdd
	OpSub
	OpMul
	OpUDiv
	OpURem
	OpSDiv
	OpSRem
	OpAnd // bvand or bool and
	OpOr
	OpXor
	OpNot // bvnot or bool not
	OpNeg
	OpShl
	OpLShr
	OpAShr
	OpEq // -> Bool
	OpULt
	OpULe
	OpSLt
	OpSLe
	OpIte
	OpZExt    // k = result width
	OpSExt    // k = result width
	OpExtract // k = hi<<8|lo
	OpConcat
	OpUF // uninterpreted function: name, args in xs; w = result width (0 bool)
)

type Term struct {
	op   Op
	w    uint8 // 0 = Bool
	a, b *Term
	c    *Term
	xs   []*Term // UF args
	k    uint64
	name string
	id   int64
	key  string // structural key, computed lazily (termKey)
}

var termID int64

func newTerm(t Term) *Term {
	t.id = atomic.AddInt64(&termID, 1)
	return &t
}

var (
	tTrue  = &Term{op: OpConst, w: 0, k: 1, id: -1}
	tFalse = &Term{op: OpConst, w: 0, k: 0, id: -2}
)

func mask(w uint8) uint64 {
	if w >= 64 {
		return ^uint64(0)
	}
	return (uint64(1) << w) - 1
}

func bvConst(w uint8, v uint64) *Term {
	return &Term{op: OpConst, w: w, k: v & mask(w), id: 0}
}

func boolConst(b bool) *Term {
	if b {
		return tTrue
	}
	return tFalse
}

func mkVar(name string, w uint8) *Term {
	return newTerm(Term{op: OpVar, w: w, name: name})
}

func (t *Term) isConst() bool { return t.op == OpConst }
func (t *Term) isTrue() bool  { return t.op == OpConst && t.w == 0 && t.k == 1 }
func (t *Term) isFalse() bool { return t.op == OpConst && t.w == 0 && t.k == 0 }

func signExt(v uint64, w uint8) int64 {
	if w >= 64 {
		return int64(v)
	}
	sh := 64 - w
	return int64(v<<sh) >> sh
}

// sameTerm is a cheap structural identity test (pointer or equal consts/vars).
func sameTerm(x, y *Term) bool {
	if x == y {
		return true
	}
	if x.op != y.op || x.w != y.w {
		return false
	}
	switch x.op {
	case OpConst:
		return x.k == y.k
	case OpVar:
		return x.name == y.name
	}
	return false
}

func mkBin(op Op, x, y *Term) *Term {
	if x.w != y.w {
		panic(fmt.Sprintf("mkBin %d: width mismatch %d vs %d", op, x.w, y.w))
	}
	w := x.w
	if x.isConst() && y.isConst() {
		a, b := x.k, y.k
		m := mask(w)
		switch op {
		case OpAdd:
			return bvConst(w, a+b)
		case OpSub:
			return bvConst(w, a-b)
		case OpMul:
			return bvConst(w, a*b)
		case OpUDiv:
			if b == 0 {
				return bvConst(w, m)
			}
			return bvConst(w, a/b)
		case OpURem:
			if b == 0 {
				return bvConst(w, a)
			}
			return bvConst(w, a%b)
		case OpSDiv:
			if b != 0 {
				sa, sb := signExt(a, w), signExt(b, w)
				if sb == -1 {
					return bvConst(w, uint64(-sa))
				}
				return bvConst(w, uint64(sa/sb))
			}
		case OpSRem:
			if b != 0 {
				sa, sb := signExt(a, w), signExt(b, w)
				if sb == -1 {
					return bvConst(w, 0)
				}
				return bvConst(w, uint64(sa%sb))
			}
		case OpAnd:
			if w == 0 {
				return boolConst(a&b == 1)
			}
			return bvConst(w, a&b)
		case OpOr:
			if w == 0 {
				return boolConst(a|b == 1)
			}
			return bvConst(w, a|b)
		case OpXor:
			if w == 0 {
				return boolConst(a^b == 1)
			}
			return bvConst(w, a^b)
		case OpShl:
			if b >= uint64(w) {
				return bvConst(w, 0)
			}
			return bvConst(w, a<<b)
		case OpLShr:
			if b >= uint64(w) {
				return bvConst(w, 0)
			}
			return bvConst(w, a>>b)
		case OpAShr:
			sa := signExt(a, w)
			if b >= uint64(w) {
				b = uint64(w) - 1
			}
			return bvConst(w, uint64(sa>>b))
		case OpEq:
			return boolConst(a == b)
		case OpULt:
			return boolConst(a < b)
		case OpULe:
			return boolConst(a <= b)
		case OpSLt:
			return boolConst(signExt(a, w) < signExt(b, w))
		case OpSLe:
			return boolConst(signExt(a, w) <= signExt(b, w))
		}
	}
	// simplifications
	switch op {
	case OpAnd:
		if w == 0 {
			if x.isFalse() || y.isFalse() {
				return tFalse
			}
			if x.isTrue() {
				return y
			}
			if y.isTrue() {
				return x
			}
			if sameTerm(x, y) {
				return x
			}
		} else {
			if x.isConst() && x.k == 0 || y.isConst() && y.k == 0 {
				return bvConst(w, 0)
			}
			if x.isConst() && x.k == mask(w) {
				return y
			}
			if y.isConst() && y.k == mask(w) {
				return x
			}
		}
	case OpOr:
		if w == 0 {
			if x.isTrue() || y.isTrue() {
				return tTrue
			}
			if x.isFalse() {
				return y
			}
			if y.isFalse() {
				return x
			}
			if sameTerm(x, y) {
				return x
			}
		} else {
			if x.isConst() && x.k == 0 {
				return y
			}
			if y.isConst() && y.k == 0 {
				return x
			}
		}
	case OpXor:
		if w == 0 {
			if x.isFalse() {
				return y
			}
			if y.isFalse() {
				return x
			}
			if x.isTrue() {
				return mkNot(y)
			}
			if y.isTrue() {
				return mkNot(x)
			}
		}
	case OpAdd:
		if x.isConst() && x.k == 0 {
			return y
		}
		if y.isConst() && y.k == 0 {
			return x
		}
	case OpSub:
		if y.isConst() && y.k == 0 {
			return x
		}
		if sameTerm(x, y) {
			return bvConst(w, 0)
		}
	case OpMul:
		if x.isConst() && x.k == 1 {
			return y
		}
		if y.isConst() && y.k == 1 {
			return x
		}
		if x.isConst() && x.k == 0 || y.isConst() && y.k == 0 {
			return bvConst(w, 0)
		}
	case OpEq:
		if sameTerm(x, y) {
			return tTrue
		}
		if w == 0 {
			if x.isTrue() {
				return y
			}
			if y.isTrue() {
				return x
			}
			if x.isFalse() {
				return mkNot(y)
			}
			if y.isFalse() {
				return mkNot(x)
			}
		}
		// ite(c, k1, k2) == k  with distinct consts
		if y.isConst() && x.op == OpIte && x.b.isConst() && x.c.isConst() {
			if x.b.k == y.k && x.c.k != y.k {
				return x.a
			}
			if x.c.k == y.k && x.b.k != y.k {
				return mkNot(x.a)
			}
			if x.b.k != y.k && x.c.k != y.k {
				return tFalse
			}
		}
		// zext(a) == const
		if y.isConst() && x.op == OpZExt {
			if y.k > mask(x.a.w) {
				return tFalse
			}
			return mkBin(OpEq, x.a, bvConst(x.a.w, y.k))
		}
		if x.isConst() && !y.isConst() {
			return mkBin(OpEq, y, x)
		}
	case OpULt:
		if sameTerm(x, y) {
			return tFalse
		}
		if y.isConst() && y.k == 0 {
			return tFalse
		}
	case OpULe:
		if sameTerm(x, y) {
			return tTrue
		}
		if x.isConst() && x.k == 0 {
			return tTrue
		}
	case OpSLt:
		if sameTerm(x, y) {
			return tFalse
		}
	case OpSLe:
		if sameTerm(x, y) {
			return tTrue
		}
	case OpShl, OpLShr, OpAShr:
		if y.isConst() && y.k == 0 {
			return x
		}
	}
	rw := w
	switch op {
	case OpEq, OpULt, OpULe, OpSLt, OpSLe:
		rw = 0
	}
	return newTerm(Term{op: op, w: rw, a: x, b: y})
}

func mkNot(x *Term) *Term {
	if x.isConst() {
		if x.w == 0 {
			return boolConst(x.k == 0)
		}
		return bvConst(x.w, ^x.k)
	}
	if x.op == OpNot {
		return x.a
	}
	return newTerm(Term{op: OpNot, w: x.w, a: x})
}

func mkNeg(x *Term) *Term {
	if x.isConst() {
		return bvConst(x.w, -x.k)
	}
	return newTerm(Term{op: OpNeg, w: x.w, a: x})
}

func mkIte(c, x, y *Term) *Term {
	if c.isTrue() {
		return x
	}
	if c.isFalse() {
		return y
	}
	if sameTerm(x, y) {
		return x
	}
	if x.w == 0 {
		if x.isTrue() && y.isFalse() {
			return c
		}
		if x.isFalse() && y.isTrue() {
			return mkNot(c)
		}
		if x.isTrue() {
			return mkBin(OpOr, c, y)
		}
		if y.isFalse() {
			return mkBin(OpAnd, c, x)
		}
		if x.isFalse() {
			return mkBin(OpAnd, mkNot(c), y)
		}
		if y.isTrue() {
			return mkBin(OpOr, mkNot(c), x)
		}
	}
	return newTerm(Term{op: OpIte, w: x.w, a: c, b: x, c: y})
}

func mkZExt(x *Term, w uint8) *Term {
	if x.w == w {
		return x
	}
	if x.w > w {
		return mkExtract(x, w-1, 0)
	}
	if x.isConst() {
		return bvConst(w, x.k)
	}
	return newTerm(Term{op: OpZExt, w: w, a: x, k: uint64(w)})
}

func mkSExt(x *Term, w uint8) *Term {
	if x.w == w {
		return x
	}
	if x.w > w {
		return mkExtract(x, w-1, 0)
	}
	if x.isConst() {
		return bvConst(w, uint64(signExt(x.k, x.w)))
	}
	return newTerm(Term{op: OpSExt, w: w, a: x, k: uint64(w)})
}

func mkExtract(x *Term, hi, lo uint8) *Term {
	w := hi - lo + 1
	if w == x.w {
		return x
	}
	if x.isConst() {
		return bvConst(w, x.k>>lo)
	}
	if lo == 0 && (x.op == OpZExt || x.op == OpSExt) {
		if x.a.w == w {
			return x.a
		}
		if x.a.w > w {
			return mkExtract(x.a, hi, 0)
		}
		if x.op == OpZExt {
			return mkZExt(x.a, w)
		}
		return mkSExt(x.a, w)
	}
	return newTerm(Term{op: OpExtract, w: w, a: x, k: uint64(hi)<<8 | uint64(lo)})
}

func mkConcat(hi, lo *Term) *Term {
	if hi.isConst() && lo.isConst() {
		return bvConst(hi.w+lo.w, hi.k<<lo.w|lo.k)
	}
	return newTerm(Term{op: OpConcat, w: hi.w + lo.w, a: hi, b: lo})
}

func mkUF(name string, w uint8, args []*Term) *Term {
	return newTerm(Term{op: OpUF, w: w, name: name, xs: args})
}

func mkAnd(ts ...*Term) *Term {
	r := tTrue
	for _, t := range ts {
		r = mkBin(OpAnd, r, t)
	}
	return r
}

func mkOr(ts ...*Term) *Term {
	r := tFalse
	for _, t := range ts {
		r = mkBin(OpOr, r, t)
	}
	return r
}

func mkImplies(a, b *Term) *Term { return mkBin(OpOr, mkNot(a), b) }

func sortString(w uint8) string {
	if w == 0 {
		return "Bool"
	}
	return fmt.Sprintf("(_ BitVec %d)", w)
}

func constString(t *Term) string {
	if t.w == 0 {
		if t.k == 1 {
			return "true"
		}
		return "false"
	}
	if t.w%4 == 0 {
		return fmt.Sprintf("#x%0*x", int(t.w/4), t.k)
	}
	return fmt.Sprintf("#b%0*b", int(t.w), t.k)
}

func smtName(s string) string {
	// quoted symbol; tags never contain '|' or '\\'
	s = strings.Map(func(r rune) rune {
		if r == '|' || r == '\\' {
			return '_'
		}
		return r
	}, s)
	return "|" + s + "|"
}

var opNames = map[Op]string{
	OpAdd: "bvadd", OpSub: "bvsub", OpMul: "bvmul", OpUDiv: "bvudiv", OpURem: "bvurem",
	OpSDiv: "bvsdiv", OpSRem: "bvsrem", OpShl: "bvshl", OpLShr: "bvlshr", OpAShr: "bvashr",
	OpEq: "=", OpULt: "bvult", OpULe: "bvule", OpSLt: "bvslt", OpSLe: "bvsle",
	OpNeg: "bvneg", OpConcat: "concat",
}

// evalTerm evaluates t under an assignment of variables (by name).
// Unassigned variables evaluate to 0. UF terms are looked up by their printed key.
func evalTerm(t *Term, env map[string]uint64, memo map[*Term]uint64) uint64 {
	if t.op == OpConst {
		return t.k
	}
	if v, ok := memo[t]; ok {
		return v
	}
	var r uint64
	switch t.op {
	case OpVar:
		r = env[t.name] & mask(t.w)
		if t.w == 0 {
			r = env[t.name] & 1
		}
	case OpNot:
		a := evalTerm(t.a, env, memo)
		if t.w == 0 {
			r = a ^ 1
		} else {
			r = ^a & mask(t.w)
		}
	case OpNeg:
		r = -evalTerm(t.a, env, memo) & mask(t.w)
	case OpIte:
		if evalTerm(t.a, env, memo) == 1 {
			r = evalTerm(t.b, env, memo)
		} else {
			r = evalTerm(t.c, env, memo)
		}
	case OpZExt:
		r = evalTerm(t.a, env, memo)
	case OpSExt:
		r = uint64(signExt(evalTerm(t.a, env, memo), t.a.w)) & mask(t.w)
	case OpExtract:
		lo := uint8(t.k & 0xff)
		r = (evalTerm(t.a, env, memo) >> lo) & mask(t.w)
	case OpConcat:
		r = evalTerm(t.a, env, memo)<<t.b.w | evalTerm(t.b, env, memo)
	case OpUF:
		r = env[ufKey(t, env, memo)]
	default:
		av, bv := evalTerm(t.a, env, memo), evalTerm(t.b, env, memo)
		var a, b *Term
		if t.a.w == 0 {
			a = boolConst(av&1 == 1)
			b = boolConst(bv&1 == 1)
		} else {
			a = bvConst(t.a.w, av)
			b = bvConst(t.b.w, bv)
		}
		c := mkBin(t.op, a, b)
		if !c.isConst() {
			// division by zero etc: SMT-LIB semantics
			switch t.op {
			case OpSDiv:
				if signExt(a.k, a.w) < 0 {
					r = 1
				} else {
					r = mask(t.w)
				}
			case OpSRem:
				r = a.k
			default:
				panic("evalTerm: non-const result")
			}
		} else {
			r = c.k
		}
	}
	memo[t] = r
	return r
}

func ufKey(t *Term, env map[string]uint64, memo map[*Term]uint64) string {
	var sb strings.Builder
	sb.WriteString("uf:" + t.name)
	for _, x := range t.xs {
		fmt.Fprintf(&sb, ",%d", evalTerm(x, env, memo))
	}
	return sb.String()
}

// termKey returns a structural key of t (equal keys => identical terms).
func termKey(t *Term) string {
	if t.key != "" {
		return t.key
	}
	var sb strings.Builder
	switch t.op {
	case OpConst:
		fmt.Fprintf(&sb, "c%d:%x", t.w, t.k)
	case OpVar:
		sb.WriteString("v:" + t.name)
	default:
		fmt.Fprintf(&sb, "(%d.%d.%x", t.op, t.w, t.k)
		if t.name != "" {
			sb.WriteString(":" + t.name)
		}
		for _, x := range []*Term{t.a, t.b, t.c} {
			if x != nil {
				sb.WriteByte(' ')
				sb.WriteString(termKey(x))
			}
		}
		for _, x := range t.xs {
			sb.WriteByte(' ')
			sb.WriteString(termKey(x))
		}
		sb.WriteByte(')')
	}
	k := sb.String()
	if len(k) > 4096 {
		// very large terms: fall back to identity (no sharing)
		k = fmt.Sprintf("#%d", t.id)
	}
	t.key = k
	return k
}
