package interp

// regexp: patterns are compiled natively (the pattern string found in the
// program); matching a concrete string is native, matching a string with
// symbolic bytes simulates the compiled program (regexp/syntax.Prog) over the
// bounded byte vector with one reachability Boolean per (position, pc).

import (
	"fmt"
	"go/types"
	"regexp"
	"regexp/syntax"
	"unicode/utf8"
)

type nativeRegexp struct {
	re   *regexp.Regexp
	expr string
	prog *syntax.Prog
}

func init() {
	comp := func(fr *frame, a []value, must bool) value {
		expr := mustConcStr(a[0], "regexp pattern")
		re, err := regexp.Compile(expr)
		if err != nil {
			if must {
				panic(targetPanic{"regexp: Compile(" + expr + "): " + err.Error()})
			}
			return tuple{(*value)(nil), iface{errorType, err.Error()}}
		}
		rs, _ := syntax.Parse(expr, syntax.Perl)
		prog, _ := syntax.Compile(rs.Simplify())
		var cell value = nativeRegexp{re, expr, prog}
		if must {
			return &cell
		}
		return tuple{&cell, iface{}}
	}
	externals["regexp.MustCompile"] = func(fr *frame, a []value) value { return comp(fr, a, true) }
	externals["regexp.Compile"] = func(fr *frame, a []value) value { return comp(fr, a, false) }
	externals["regexp.QuoteMeta"] = func(fr *frame, a []value) value {
		return quoteMeta(a[0])
	}
	externals["(*regexp.Regexp).String"] = func(fr *frame, a []value) value { return getRe(a[0]).expr }
	externals["(*regexp.Regexp).MatchString"] = func(fr *frame, a []value) value {
		re := getRe(a[0])
		if s, ok := a[1].(string); ok {
			return re.re.MatchString(s)
		}
		return mkSym(symMatch(re, strBytes(a[1])), types.Bool)
	}
	externals["(*regexp.Regexp).Match"] = func(fr *frame, a []value) value {
		re := getRe(a[0])
		return mkSym(symMatch(re, a[1].([]value)), types.Bool)
	}
	externals["(*regexp.Regexp).FindStringSubmatch"] = func(fr *frame, a []value) value {
		re := getRe(a[0])
		if s, ok := a[1].(string); ok {
			m := re.re.FindStringSubmatch(s)
			if m == nil {
				return []value(nil)
			}
			out := make([]value, len(m))
			for k, x := range m {
				out[k] = x
			}
			return out
		}
		return symSubmatch(fr.i, re, a[1])
	}
	externals["(*regexp.Regexp).ReplaceAllString"] = func(fr *frame, a []value) value {
		re := getRe(a[0])
		return re.re.ReplaceAllString(mustConcStr(a[1], "regexp ReplaceAllString"), mustConcStr(a[2], "regexp repl"))
	}
	externals["(*regexp.Regexp).NumSubexp"] = func(fr *frame, a []value) value { return getRe(a[0]).re.NumSubexp() }
}

func getRe(v value) nativeRegexp {
	p := v.(*value)
	if p == nil {
		panic(targetPanic{"nil *regexp.Regexp"})
	}
	re, ok := (*p).(nativeRegexp)
	if !ok {
		panic(unsupported{fmt.Sprintf("regexp object of unexpected representation %T", *p)})
	}
	return re
}

const quoteSpecial = `\.+*?()|[]{}^$`

// quoteMeta escapes regexp metacharacters. With symbolic bytes the output
// length depends on the bytes, so each symbolic byte is forked on "is special"
// by the caller's interpreter; here we require the caller to have concretised.
func quoteMeta(s value) value {
	if cs, ok := s.(string); ok {
		return regexp.QuoteMeta(cs)
	}
	panic(unsupported{"regexp.QuoteMeta of a symbolic string"})
}

// symMatch returns the Bool term "re matches somewhere in b" (unanchored
// semantics handled by the program's own structure: Go's Prog is anchored at
// the start only through InstEmptyWidth; unanchored search = try every start).
func symMatch(re nativeRegexp, b []value) *Term {
	n := len(b)
	res := tFalse
	for start := 0; start <= n; start++ {
		res = mkBin(OpOr, res, simulate(re.prog, b, start))
		if re.prog.StartCond()&syntax.EmptyBeginText != 0 {
			break
		}
	}
	return res
}

// simulate: does prog match b starting exactly at position start?
func simulate(prog *syntax.Prog, b []value, start int) *Term {
	n := len(b)
	ninst := len(prog.Inst)
	// reach[pos][pc] after epsilon closure
	reach := make([][]*Term, n+2)
	for k := range reach {
		reach[k] = make([]*Term, ninst)
		for j := range reach[k] {
			reach[k][j] = tFalse
		}
	}
	matched := tFalse
	var add func(pos, pc int, c *Term, depth int)
	add = func(pos, pc int, c *Term, depth int) {
		if c.isFalse() || depth > 2*ninst+4 {
			return
		}
		in := &prog.Inst[pc]
		switch in.Op {
		case syntax.InstAlt, syntax.InstAltMatch:
			add(pos, int(in.Out), c, depth+1)
			add(pos, int(in.Arg), c, depth+1)
		case syntax.InstNop, syntax.InstCapture:
			add(pos, int(in.Out), c, depth+1)
		case syntax.InstEmptyWidth:
			ok := tTrue
			e := syntax.EmptyOp(in.Arg)
			if e&syntax.EmptyBeginText != 0 && pos != 0 {
				ok = tFalse
			}
			if e&syntax.EmptyEndText != 0 && pos != n {
				ok = tFalse
			}
			if e&(syntax.EmptyBeginLine|syntax.EmptyEndLine|syntax.EmptyWordBoundary|syntax.EmptyNoWordBoundary) != 0 {
				panic(unsupported{"regexp: line/word boundary assertions with symbolic input"})
			}
			add(pos, int(in.Out), mkBin(OpAnd, c, ok), depth+1)
		case syntax.InstMatch:
			matched = mkBin(OpOr, matched, c)
		case syntax.InstFail:
		default:
			reach[pos][pc] = mkBin(OpOr, reach[pos][pc], c)
		}
	}
	add(start, prog.Start, tTrue, 0)
	for pos := start; pos < n; pos++ {
		ch := toTerm(b[pos])
		for pc := 0; pc < ninst; pc++ {
			c := reach[pos][pc]
			if c.isFalse() {
				continue
			}
			in := &prog.Inst[pc]
			var m *Term
			switch in.Op {
			case syntax.InstRune1:
				m = runeClass(ch, in.Rune, in.Arg)
			case syntax.InstRune:
				m = runeClass(ch, in.Rune, in.Arg)
			case syntax.InstRuneAny:
				m = mkBin(OpULt, ch, bvConst(8, utf8.RuneSelf))
			case syntax.InstRuneAnyNotNL:
				m = mkBin(OpAnd, mkBin(OpULt, ch, bvConst(8, utf8.RuneSelf)), mkNot(mkBin(OpEq, ch, bvConst(8, '\n'))))
			default:
				continue
			}
			add(pos+1, int(in.Out), mkBin(OpAnd, c, m), 0)
		}
	}
	return matched
}

// runeClass: byte ch (ASCII only: bytes >= 0x80 never match; callers state the
// ASCII assumption) matches the rune set given as pairs (or a single rune).
func runeClass(ch *Term, runes []rune, arg uint32) *Term {
	fold := syntax.Flags(arg)&syntax.FoldCase != 0
	if fold {
		panic(unsupported{"regexp: case-folding class with symbolic input"})
	}
	ascii := mkBin(OpULt, ch, bvConst(8, utf8.RuneSelf))
	if len(runes) == 1 {
		if runes[0] >= utf8.RuneSelf {
			return tFalse
		}
		return mkBin(OpEq, ch, bvConst(8, uint64(runes[0])))
	}
	r := tFalse
	for k := 0; k+1 < len(runes); k += 2 {
		lo, hi := runes[k], runes[k+1]
		if lo >= utf8.RuneSelf {
			continue
		}
		if hi >= utf8.RuneSelf {
			hi = utf8.RuneSelf - 1
		}
		r = mkBin(OpOr, r, mkBin(OpAnd, mkBin(OpULe, bvConst(8, uint64(lo)), ch), mkBin(OpULe, ch, bvConst(8, uint64(hi)))))
	}
	return mkBin(OpAnd, ascii, r)
}

// symSubmatch implements FindStringSubmatch on a string with symbolic bytes by
// forking over the capture boundaries: for an anchored pattern it enumerates
// candidate splits natively on a skeleton and verifies each with the solver.
// Supported: patterns anchored at both ends whose captures are separated by
// literal text (the SPIFFE URI patterns); otherwise unsupported.
func symSubmatch(i *interpreter, re nativeRegexp, s value) value {
	// Strategy: fork on "does it match" first; then fork over the feasible
	// concrete capture index vectors by trying all boundary positions.
	b := strBytes(s)
	if !i.truthTerm(symMatch(re, b)) {
		return []value(nil)
	}
	n := len(b)
	ncap := re.re.NumSubexp()
	if re.prog.StartCond()&syntax.EmptyBeginText == 0 {
		panic(unsupported{"regexp: FindStringSubmatch with symbolic input on an unanchored pattern"})
	}
	// Enumerate capture boundary vectors via the simulation with position
	// tracking: run a DFS over (pos, pc, caps) deciding rune matches by forking.
	type thread struct {
		pc   int
		caps []int
	}
	var run func(pos int, th thread, depth int) []int
	run = func(pos int, th thread, depth int) []int {
		if depth > 4*len(re.prog.Inst)+8*n+16 {
			return nil
		}
		in := &re.prog.Inst[th.pc]
		switch in.Op {
		case syntax.InstAlt, syntax.InstAltMatch:
			if r := run(pos, thread{int(in.Out), th.caps}, depth+1); r != nil {
				return r
			}
			return run(pos, thread{int(in.Arg), th.caps}, depth+1)
		case syntax.InstNop:
			return run(pos, thread{int(in.Out), th.caps}, depth+1)
		case syntax.InstCapture:
			nc := append([]int{}, th.caps...)
			if int(in.Arg) < len(nc) {
				nc[in.Arg] = pos
			}
			return run(pos, thread{int(in.Out), nc}, depth+1)
		case syntax.InstEmptyWidth:
			e := syntax.EmptyOp(in.Arg)
			if e&syntax.EmptyBeginText != 0 && pos != 0 {
				return nil
			}
			if e&syntax.EmptyEndText != 0 && pos != n {
				return nil
			}
			return run(pos, thread{int(in.Out), th.caps}, depth+1)
		case syntax.InstMatch:
			return th.caps
		case syntax.InstFail:
			return nil
		}
		if pos >= n {
			return nil
		}
		ch := toTerm(b[pos])
		var m *Term
		switch in.Op {
		case syntax.InstRune1, syntax.InstRune:
			m = runeClass(ch, in.Rune, in.Arg)
		case syntax.InstRuneAny:
			m = mkBin(OpULt, ch, bvConst(8, utf8.RuneSelf))
		case syntax.InstRuneAnyNotNL:
			m = mkBin(OpAnd, mkBin(OpULt, ch, bvConst(8, utf8.RuneSelf)), mkNot(mkBin(OpEq, ch, bvConst(8, '\n'))))
		}
		if !i.truthTerm(m) {
			return nil
		}
		return run(pos+1, thread{int(in.Out), th.caps}, depth+1)
	}
	caps := make([]int, 2*(ncap+1))
	for k := range caps {
		caps[k] = -1
	}
	r := run(0, thread{re.prog.Start, caps}, 0)
	if r == nil {
		// the leftmost-first thread failed on this fork although the pattern
		// matches: another alternative matches; not modelled.
		panic(unsupported{"regexp: submatch needs backtracking priority beyond the first thread"})
	}
	out := make([]value, ncap+1)
	for k := 0; k <= ncap; k++ {
		lo, hi := r[2*k], r[2*k+1]
		if lo < 0 || hi < 0 {
			out[k] = ""
		} else {
			out[k] = strSlice(s, lo, hi)
		}
	}
	return out
}
