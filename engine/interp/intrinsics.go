package interp

// Intrinsics: the harness runtime (verifrt) and the environment model
// (clock, sync, atomics, strings/bytes leaf routines, errors, fmt, sort).
// Every intrinsic that stands for real code is part of the trusted base and is
// listed in the evidence when hit.

import (
	"fmt"
	"os"
	"go/token"
	"go/types"
	"strings"

	"golang.org/x/tools/go/ssa"
)

const rtPkg = "github.com/hashicorp/consul/internal/verifrt."

// noopPkgs: package-level functions and methods without results in these
// packages are skipped (metrics, logging). Functions with results run as real
// code.
var noopPkgPrefixes = []string{
	"github.com/armon/go-metrics.",
	"github.com/hashicorp/go-metrics.",
	"github.com/hashicorp/go-metrics/compat.",
	"github.com/armon/go-metrics/prometheus.",
	"log.",
}

func lookupExternal(fn *ssa.Function, name string) externalFn {
	if ext := externals[name]; ext != nil {
		return ext
	}
	if fn.Pkg != nil {
		pp := fn.Pkg.Pkg.Path()
		for _, p := range noopPkgPrefixes {
			if pp+"." == p && fn.Signature.Results().Len() == 0 {
				return func(fr *frame, args []value) value {
					fr.i.stubsHit["noop:"+p]++
					return nil
				}
			}
		}
	}
	if fn.Blocks == nil && fn.Pkg != nil && fn.Pkg.Pkg.Path() == "math/big" {
		// assembly leaves of math/big: run the pure-Go reference version (<name>_g)
		if g := fn.Pkg.Func(fn.Name() + "_g"); g != nil && g.Blocks != nil {
			return func(fr *frame, args []value) value {
				return call(fr.i, fr, token.NoPos, g, args)
			}
		}
	}
	if strings.HasPrefix(name, "unique.Make[") {
		// unique.Make[T](v): canonical pointer per (type, value); concrete values only
		return func(fr *frame, args []value) value {
			ks, ok := keyString(args[0])
			if !ok {
				panic(unsupported{"unique.Make of a symbolic value"})
			}
			key := name + "|" + ks
			if fr.i.uniq == nil {
				fr.i.uniq = map[string]*value{}
			}
			p, ok := fr.i.uniq[key]
			if !ok {
				p = new(value)
				*p = copyVal(args[0])
				fr.i.uniq[key] = p
			}
			return structure{p}
		}
	}
	return nil
}

func stubHit(fr *frame, name string) { fr.i.stubsHit[name]++ }

func mustConcStr(v value, what string) string {
	s, ok := v.(string)
	if !ok {
		panic(unsupported{what + ": symbolic string where a concrete one is required"})
	}
	return s
}

func (p *pathCtx) fresh(tag string, w uint8) *Term {
	p.seq++
	v := mkVar(fmt.Sprintf("%s!%d", tag, p.seq), w)
	p.vars = append(p.vars, v)
	return v
}

func needPath(fr *frame) *pathCtx {
	if fr.i.path == nil {
		panic(unsupported{"verifrt nondeterminism used outside a path (in setup?)"})
	}
	return fr.i.path
}

func nondetScalar(fr *frame, args []value, kind string, k types.BasicKind) value {
	p := needPath(fr)
	tag := mustConcStr(args[0], "verifrt tag")
	t := p.fresh(tag, kindWidth(k))
	p.nondets = append(p.nondets, nondetRec{Tag: tag, Kind: kind, terms: []*Term{t}})
	return sym{t, k}
}

func init() {
	ext := map[string]externalFn{
		rtPkg + "U64":  func(fr *frame, a []value) value { return nondetScalar(fr, a, "u64", types.Uint64) },
		rtPkg + "U32":  func(fr *frame, a []value) value { return nondetScalar(fr, a, "u32", types.Uint32) },
		rtPkg + "U16":  func(fr *frame, a []value) value { return nondetScalar(fr, a, "u16", types.Uint16) },
		rtPkg + "U8":   func(fr *frame, a []value) value { return nondetScalar(fr, a, "u8", types.Uint8) },
		rtPkg + "I64":  func(fr *frame, a []value) value { return nondetScalar(fr, a, "i64", types.Int64) },
		rtPkg + "Bool": func(fr *frame, a []value) value { return nondetScalar(fr, a, "bool", types.Bool) },
		rtPkg + "Int": func(fr *frame, a []value) value {
			// Int(tag, lo, hi): symbolic int in [lo,hi]
			p := needPath(fr)
			tag := mustConcStr(a[0], "verifrt tag")
			lo, hi := a[1].(int), a[2].(int)
			t := p.fresh(tag, 64)
			p.nondets = append(p.nondets, nondetRec{Tag: tag, Kind: "int", terms: []*Term{t}})
			p.assume(mkBin(OpAnd, mkBin(OpSLe, bvConst(64, uint64(lo)), t), mkBin(OpSLe, t, bvConst(64, uint64(hi)))))
			return sym{t, types.Int}
		},
		rtPkg + "Choice": func(fr *frame, a []value) value {
			p := needPath(fr)
			tag := mustConcStr(a[0], "verifrt tag")
			n := a[1].(int)
			c := p.choose(n)
			p.nondets = append(p.nondets, nondetRec{Tag: tag, Kind: "choice", cval: c})
			return c
		},
		rtPkg + "Str": func(fr *frame, a []value) value {
			// Str(tag, maxLen): length is forked, bytes are symbolic
			p := needPath(fr)
			tag := mustConcStr(a[0], "verifrt tag")
			n := p.choose(a[1].(int) + 1)
			return nondetStr(p, tag, n, "str")
		},
		rtPkg + "StrN": func(fr *frame, a []value) value {
			p := needPath(fr)
			return nondetStr(p, mustConcStr(a[0], "verifrt tag"), a[1].(int), "str")
		},
		rtPkg + "Bytes": func(fr *frame, a []value) value {
			p := needPath(fr)
			tag := mustConcStr(a[0], "verifrt tag")
			n := p.choose(a[1].(int) + 1)
			s := nondetStr(p, tag, n, "bytes")
			if n == 0 {
				return []value(nil)
			}
			return strBytes(s)
		},
		rtPkg + "Assume": func(fr *frame, a []value) value {
			if fr.i.path == nil {
				if b, ok := a[0].(bool); ok && b {
					return nil
				}
				panic(unsupported{"Assume outside a path"})
			}
			if debugConc {
				if b, ok := a[0].(bool); ok && !b && fr.caller != nil {
					fmt.Fprintf(os.Stderr, "assume(false) at %s\n", fr.i.prog.Fset.Position(fr.i.curInstr.Pos()))
				}
			}
			fr.i.path.assume(toTerm(a[0]))
			return nil
		},
		rtPkg + "Assert": func(fr *frame, a []value) value {
			p := needPath(fr)
			p.assert(mustConcStr(a[0], "assert id"), toTerm(a[1]))
			return nil
		},
		rtPkg + "Reached": func(fr *frame, a []value) value {
			needPath(fr).reached(mustConcStr(a[0], "tag"))
			return nil
		},
		rtPkg + "Symbolic": func(fr *frame, a []value) value { return true },
		rtPkg + "ClockReadings": func(fr *frame, a []value) value { return []value(nil) },
		rtPkg + "Thorough": func(fr *frame, a []value) value { return fr.i.thorough },
		rtPkg + "Replace": func(fr *frame, a []value) value {
			name := mustConcStr(a[0], "Replace name")
			fnv := a[1].(iface).v
			old, had := fr.i.replaced[name]
			fr.i.replaced[name] = fnv
			fr.i.onUndo(func() {
				if had {
					fr.i.replaced[name] = old
				} else {
					delete(fr.i.replaced, name)
				}
			})
			return nil
		},
		rtPkg + "PermuteMaps": func(fr *frame, a []value) value {
			p := needPath(fr)
			p.permute = a[0].(bool)
			p.permuteIn = ""
			return nil
		},
		rtPkg + "PermuteMapsIn": func(fr *frame, a []value) value {
			// PermuteMapsIn(substr): arbitrary iteration order for maps ranged in functions whose name contains substr
			p := needPath(fr)
			p.permuteIn = mustConcStr(a[0], "PermuteMapsIn")
			p.permute = p.permuteIn != ""
			return nil
		},
		rtPkg + "IgnoreGo": func(fr *frame, a []value) value {
			fr.i.setNote("ignorego:"+mustConcStr(a[0], "IgnoreGo"), "1")
			return nil
		},
		rtPkg + "Note": func(fr *frame, a []value) value {
			fr.i.setNote("note:"+mustConcStr(a[0], "Note"), toString(a[1]))
			return nil
		},
		rtPkg + "UFBool": func(fr *frame, a []value) value {
			// UFBool(name, args ...string): an arbitrary but consistent predicate of its arguments
			p := needPath(fr)
			name := mustConcStr(a[0], "UF name")
			var ts []*Term
			lens := ""
			for _, s := range a[1].([]value) {
				n := strLen(s)
				lens += fmt.Sprintf("_%d", n)
				for k := 0; k < n; k++ {
					ts = append(ts, toTerm(strByte(s, k)))
				}
			}
			p.noModel = true
			t := mkUF(name+lens, 0, ts)
			p.nondets = append(p.nondets, nondetRec{Tag: "uf:" + name, Kind: "bool", terms: []*Term{t}})
			return mkSym(t, types.Bool)
		},
		rtPkg + "UFU64": func(fr *frame, a []value) value {
			p := needPath(fr)
			name := mustConcStr(a[0], "UF name")
			var ts []*Term
			for _, s := range a[1].([]value) {
				ts = append(ts, toTerm(s))
			}
			p.noModel = true
			t := mkUF(name, 64, ts)
			p.nondets = append(p.nondets, nondetRec{Tag: "uf:" + name, Kind: "u64", terms: []*Term{t}})
			return mkSym(t, types.Uint64)
		},
		rtPkg + "Concrete": func(fr *frame, a []value) value {
			// Concrete(x int) int: fork over the feasible values
			return int(fr.i.concInt(a[0]))
		},
		rtPkg + "Ite": func(fr *frame, a []value) value {
			// Ite(c bool, x, y uint64) uint64 without forking
			return mkSym(mkIte(toTerm(a[0]), toTerm(a[1]), toTerm(a[2])), types.Uint64)
		},
		rtPkg + "And": func(fr *frame, a []value) value {
			return mkSym(mkBin(OpAnd, toTerm(a[0]), toTerm(a[1])), types.Bool)
		},
		rtPkg + "Or": func(fr *frame, a []value) value {
			return mkSym(mkBin(OpOr, toTerm(a[0]), toTerm(a[1])), types.Bool)
		},
		rtPkg + "Implies": func(fr *frame, a []value) value {
			return mkSym(mkImplies(toTerm(a[0]), toTerm(a[1])), types.Bool)
		},
		rtPkg + "Not": func(fr *frame, a []value) value {
			return mkSym(mkNot(toTerm(a[0])), types.Bool)
		},
		rtPkg + "StrEq": func(fr *frame, a []value) value {
			return mkSym(strEqTerm(a[0], a[1]), types.Bool)
		},
		rtPkg + "StrLess": func(fr *frame, a []value) value {
			return mkSym(strLtTerm(a[0], a[1]), types.Bool)
		},
		rtPkg + "HasPrefix": func(fr *frame, a []value) value {
			s, pre := a[0], a[1]
			if strLen(pre) > strLen(s) {
				return false
			}
			return mkSym(strEqTerm(strSlice(s, 0, strLen(pre)), pre), types.Bool)
		},

		// ---- sync ------------------------------------------------------------
		"(*sync.Mutex).Lock":      extNoop,
		"(*sync.Mutex).Unlock":    extNoop,
		"(*sync.Mutex).TryLock":   func(fr *frame, a []value) value { return true },
		"(*sync.RWMutex).Lock":    extNoop,
		"(*sync.RWMutex).Unlock":  extNoop,
		"(*sync.RWMutex).RLock":   extNoop,
		"(*sync.RWMutex).RUnlock": extNoop,
		"(*sync.WaitGroup).Add":   extNoop,
		"(*sync.WaitGroup).Done":  extNoop,
		"(*sync.WaitGroup).Wait":  extNoop,
		"(*sync.Cond).Broadcast":  extNoop,
		"(*sync.Cond).Signal":     extNoop,
		"(*sync.Pool).Put":        extNoop,
		"(*sync.Pool).Get": func(fr *frame, a []value) value {
			// Pool{noCopy, local, localSize, victim, victimSize, New}
			st := (*a[0].(*value)).(structure)
			nw := st[len(st)-1]
			if isNilRef(nw) {
				return iface{}
			}
			return call(fr.i, fr, token.NoPos, nw, nil)
		},
		"runtime.SetFinalizer": extNoop,
		// os's initialiser wraps descriptors 0..2 (os.Stdin/Stdout/Stderr): F_GETFL reports no flags
		"internal/syscall/unix.Fcntl": func(fr *frame, a []value) value { return tuple{0, iface{}} },
		"runtime.KeepAlive":    extNoop,
		"runtime.Callers":      func(fr *frame, a []value) value { return 0 },
		"runtime.Caller":       func(fr *frame, a []value) value { return tuple{uintptr(0), "", 0, false} },
		"time.Sleep":           extNoop,
		"os.Getenv":            func(fr *frame, a []value) value { return "" },
		"os.LookupEnv":         func(fr *frame, a []value) value { return tuple{"", false} },
		"os.Getpid":            func(fr *frame, a []value) value { return 4242 },
		"os.Hostname":          func(fr *frame, a []value) value { return tuple{"verif-host", iface{}} },
		"internal/godebug.(*Setting).Value":            func(fr *frame, a []value) value { return "" },
		"(*internal/godebug.Setting).Value":            func(fr *frame, a []value) value { return "" },
		"(*internal/godebug.Setting).IncNonDefault":    extNoop,
		"internal/race.Acquire":                        extNoop,
		"internal/race.Release":                        extNoop,
		"internal/race.ReleaseMerge":                   extNoop,
		"internal/race.Disable":                        extNoop,
		"internal/race.Enable":                         extNoop,
		"internal/race.Read":                           extNoop,
		"internal/race.Write":                          extNoop,
		"internal/race.ReadRange":                      extNoop,
		"internal/race.WriteRange":                     extNoop,

		// ---- sync/atomic ------------------------------------------------------
		"sync/atomic.LoadInt32":    atomicLoad,
		"sync/atomic.LoadInt64":    atomicLoad,
		"sync/atomic.LoadUint32":   atomicLoad,
		"sync/atomic.LoadUint64":   atomicLoad,
		"sync/atomic.LoadUintptr":  atomicLoad,
		"sync/atomic.LoadPointer":  atomicLoad,
		"sync/atomic.StoreInt32":   atomicStore,
		"sync/atomic.StoreInt64":   atomicStore,
		"sync/atomic.StoreUint32":  atomicStore,
		"sync/atomic.StoreUint64":  atomicStore,
		"sync/atomic.StoreUintptr": atomicStore,
		"sync/atomic.StorePointer": atomicStore,
		"sync/atomic.AddInt32":     atomicAdd,
		"sync/atomic.AddInt64":     atomicAdd,
		"sync/atomic.AddUint32":    atomicAdd,
		"sync/atomic.AddUint64":    atomicAdd,
		"sync/atomic.AddUintptr":   atomicAdd,
		"sync/atomic.SwapInt32":    atomicSwap,
		"sync/atomic.SwapInt64":    atomicSwap,
		"sync/atomic.SwapUint32":   atomicSwap,
		"sync/atomic.SwapUint64":   atomicSwap,
		"sync/atomic.SwapPointer":  atomicSwap,
		"sync/atomic.CompareAndSwapInt32":   atomicCAS,
		"sync/atomic.CompareAndSwapInt64":   atomicCAS,
		"sync/atomic.CompareAndSwapUint32":  atomicCAS,
		"sync/atomic.CompareAndSwapUint64":  atomicCAS,
		"sync/atomic.CompareAndSwapUintptr": atomicCAS,
		"sync/atomic.CompareAndSwapPointer": atomicCAS,
		"(*sync/atomic.Value).Load": func(fr *frame, a []value) value {
			st := (*a[0].(*value)).(structure)
			return st[0]
		},
		"(*sync/atomic.Value).Store": func(fr *frame, a []value) value {
			st := (*a[0].(*value)).(structure)
			fr.i.set(&st[0], a[1])
			return nil
		},
		"(*sync/atomic.Value).Swap": func(fr *frame, a []value) value {
			st := (*a[0].(*value)).(structure)
			old := st[0]
			fr.i.set(&st[0], a[1])
			return old
		},
	}
	for k, v := range ext {
		externals[k] = v
	}
}

func extNoop(fr *frame, args []value) value { return nil }

func (i *interpreter) setNote(k, v string) {
	if i.notes == nil {
		i.notes = map[string]string{}
	}
	old, had := i.notes[k]
	i.notes[k] = v
	i.onUndo(func() {
		if had {
			i.notes[k] = old
		} else {
			delete(i.notes, k)
		}
	})
}

func nondetStr(p *pathCtx, tag string, n int, kind string) value {
	b := make([]value, n)
	ts := make([]*Term, n)
	for k := 0; k < n; k++ {
		t := p.fresh(fmt.Sprintf("%s[%d/%d]", tag, k, n), 8)
		ts[k] = t
		b[k] = sym{t, types.Uint8}
	}
	p.nondets = append(p.nondets, nondetRec{Tag: tag, Kind: kind, terms: ts, Len: n})
	if n == 0 {
		return ""
	}
	return sstr(b)
}

func atomicLoad(fr *frame, a []value) value {
	p := a[0].(*value)
	if p == nil {
		panic(targetPanic{"nil pointer dereference (atomic load)"})
	}
	return *p
}

func atomicStore(fr *frame, a []value) value {
	fr.i.set(a[0].(*value), a[1])
	return nil
}

func atomicAdd(fr *frame, a []value) value {
	p := a[0].(*value)
	v := binop(fr.i, token.ADD, nil, *p, a[1])
	fr.i.set(p, v)
	return v
}

func atomicSwap(fr *frame, a []value) value {
	p := a[0].(*value)
	old := *p
	fr.i.set(p, a[1])
	return old
}

func atomicCAS(fr *frame, a []value) value {
	p := a[0].(*value)
	var eq bool
	if up, ok := (*p).(unsafePtr); ok {
		eq = up.p == a[1].(unsafePtr).p
	} else {
		eq = fr.i.truth(mkSym(mkBin(OpEq, toTerm(*p), toTerm(a[1])), types.Bool))
	}
	if eq {
		fr.i.set(p, a[2])
	}
	return eq
}

// isErrorType reports whether values of type t may be compared with ==.
func comparableType(t types.Type) bool { return types.Comparable(t) }

var _ = strings.Contains

// findField returns the index path of the (possibly promoted) field name in struct type t.
func findField(t types.Type, name string, depth int) []int {
	st, ok := t.Underlying().(*types.Struct)
	if !ok || depth > 4 {
		return nil
	}
	for k := 0; k < st.NumFields(); k++ {
		if st.Field(k).Name() == name {
			return []int{k}
		}
	}
	for k := 0; k < st.NumFields(); k++ {
		if f := st.Field(k); f.Embedded() {
			ft := f.Type()
			if p, ok := ft.Underlying().(*types.Pointer); ok {
				_ = p
				continue // promoted through a pointer: not needed so far
			}
			if sub := findField(ft, name, depth+1); sub != nil {
				return append([]int{k}, sub...)
			}
		}
	}
	return nil
}

func init() {
	// SetUnexported(ptr, field, val): store val into the named field of *ptr
	externals[rtPkg+"SetUnexported"] = func(fr *frame, a []value) value {
		in := a[0].(iface)
		pt, ok := in.t.Underlying().(*types.Pointer)
		if !ok {
			panic(unsupported{"SetUnexported: not a pointer"})
		}
		name := mustConcStr(a[1], "SetUnexported field")
		path := findField(pt.Elem(), name, 0)
		if path == nil {
			panic(unsupported{"SetUnexported: no field " + name})
		}
		cell := in.v.(*value)
		t := pt.Elem()
		for _, k := range path {
			st := t.Underlying().(*types.Struct)
			cell = &(*cell).(structure)[k]
			t = st.Field(k).Type()
		}
		v := a[2].(iface).v
		fr.i.set(cell, v)
		return nil
	}
	externals[rtPkg+"DeepCopy"] = func(fr *frame, a []value) value {
		in := a[0].(iface)
		if in.t == nil {
			return in
		}
		return iface{in.t, deepCopy(in.t, in.v, map[*value]*value{}, 0)}
	}
	// CopyInto(dst, src): *dst = copy of *src (or of src when src is not a pointer)
	externals[rtPkg+"CopyInto"] = func(fr *frame, a []value) value {
		dst, src := a[0].(iface), a[1].(iface)
		dp, ok := dst.t.Underlying().(*types.Pointer)
		if !ok || src.t == nil {
			return false
		}
		cell := dst.v.(*value)
		memo := map[*value]*value{}
		if sp, ok := src.t.Underlying().(*types.Pointer); ok && types.Identical(sp.Elem(), dp.Elem()) {
			p := src.v.(*value)
			if p == nil {
				return false
			}
			store(fr.i, dp.Elem(), cell, deepCopy(dp.Elem(), *p, memo, 0))
			return true
		}
		if types.Identical(src.t, dp.Elem()) {
			store(fr.i, dp.Elem(), cell, deepCopy(src.t, src.v, memo, 0))
			return true
		}
		// dst is *interface{}: store the value itself
		if _, isIface := dp.Elem().Underlying().(*types.Interface); isIface {
			fr.i.set(cell, iface{src.t, deepCopy(src.t, src.v, memo, 0)})
			return true
		}
		return false
	}
}
