package interp

// Path exploration by deterministic re-execution: a path is identified by the
// list of recorded entries (branch outcomes, choices, concretisations, check
// results). A new path re-runs the harness from its start, consuming a prefix
// of entries without solver calls; past the prefix every symbolic branch asks
// the solver which sides are feasible and the alternative is queued.

import (
	"fmt"
	"os"
	"runtime"
	"strings"
	"sort"
	"sync"
	"time"
)

var debugTrace = os.Getenv("GOSYM_TRACE_PATHS") != ""

type entKind uint8

const (
	eBranch entKind = iota
	eChoice
	eConc
	eConcNot // only as last element of a prefix: pick a value not in excl
	eCheck   // result of a feasibility / assertion query
)

type entry struct {
	kind   entKind
	choice int
	n      int
	val    uint64
	excl   []uint64
}

type nondetRec struct {
	Tag   string
	Kind  string // u64, bool, int, str, bytes, choice
	terms []*Term
	Len   int
	cval  int // for choice
}

// control-flow panics
type pathEnd struct{ reason string }
type unsupported struct{ msg string }

func (u unsupported) String() string { return "unsupported: " + u.msg }

type Violation struct {
	Harness string            `json:"harness"`
	Assert  string            `json:"assert"`
	Kind    string            `json:"kind"` // assert | panic
	Detail  string            `json:"detail,omitempty"`
	Nondet  []NondetValue     `json:"nondet"`
	Notes   map[string]string `json:"notes,omitempty"`
}

type NondetValue struct {
	Tag   string   `json:"tag"`
	Kind  string   `json:"kind"`
	U     uint64   `json:"u,omitempty"`
	Bytes []uint64 `json:"bytes,omitempty"`
}

type pathCtx struct {
	w       *worker
	prefix  []entry
	di      int
	trace   []entry
	pcLenAt []int
	pc      []*Term
	nondets []nondetRec
	seq     int
	asserts int
	permute bool // symbolic map iteration order
	permuteIn string // when non-empty: only in functions whose name contains this
	addrs map[*value]value // printed addresses of pointers (arbitrary, consistent per object)
	steps   int64
	vars    []*Term           // variables created on this path
	mdl     map[string]uint64 // a model of the current PC, when known
	noModel bool              // uninterpreted functions in use: no model caching
	memo    map[*Term]uint64
	known   map[string]bool // conditions whose truth is fixed by the PC
}

type Stats struct {
	Paths        int
	PathsEnded   map[string]int
	Branches     int
	AssertChecks int
	AssertsHeld  int
	Unsupported  map[string]int
	EngineErrors map[string]int
	Reached      map[string]int
	AssertSites  map[string]int
	Steps        int64
	Queries      [3]int
	SolverTime   time.Duration
	SolverErrors int
	Stubs        map[string]int
	Funcs        map[string]int
	Budget       bool
	Samples      []Violation // witness samples (not violations)
}

type Explorer struct {
	mu         sync.Mutex
	cond       *sync.Cond
	queue      [][]entry
	active     int
	Stats      Stats
	Violations []Violation
	seenViol   map[string]bool
	MaxPaths   int
	Deadline   time.Time
	stop       bool
	Harness    string
	QueryMs    int
	AssertMs   int
	MaxSamples int
}

func NewExplorer(harness string) *Explorer {
	e := &Explorer{Harness: harness, seenViol: map[string]bool{}, QueryMs: 10000, AssertMs: 60000, MaxSamples: 8}
	e.cond = sync.NewCond(&e.mu)
	e.Stats.PathsEnded = map[string]int{}
	e.Stats.Unsupported = map[string]int{}
	e.Stats.EngineErrors = map[string]int{}
	e.Stats.Reached = map[string]int{}
	e.Stats.AssertSites = map[string]int{}
	e.Stats.Stubs = map[string]int{}
	e.Stats.Funcs = map[string]int{}
	e.queue = [][]entry{nil}
	return e
}

func (e *Explorer) take() ([]entry, bool) {
	e.mu.Lock()
	defer e.mu.Unlock()
	for {
		if e.stop {
			return nil, false
		}
		if n := len(e.queue); n > 0 {
			if e.MaxPaths > 0 && e.Stats.Paths >= e.MaxPaths || !e.Deadline.IsZero() && time.Now().After(e.Deadline) {
				e.Stats.Budget = true
				e.stop = true
				e.cond.Broadcast()
				return nil, false
			}
			p := e.queue[n-1]
			e.queue = e.queue[:n-1]
			e.active++
			e.Stats.Paths++
			return p, true
		}
		if e.active == 0 {
			e.cond.Broadcast()
			return nil, false
		}
		e.cond.Wait()
	}
}

func (e *Explorer) done() {
	e.mu.Lock()
	e.active--
	if e.active == 0 && len(e.queue) == 0 {
		e.cond.Broadcast()
	}
	e.mu.Unlock()
}

func (e *Explorer) push(p []entry) {
	e.mu.Lock()
	e.queue = append(e.queue, p)
	e.cond.Signal()
	e.mu.Unlock()
}

type worker struct {
	id        int
	e         *Explorer
	i         *interpreter
	s         *Solver
	synced    int // pc entries asserted in solver (one push level each)
	prevTrace []entry
	prevPcLen []int
	prevPcN   int
}

func sameEntry(a, b entry) bool {
	return a.kind == b.kind && a.choice == b.choice && a.val == b.val && a.kind != eConcNot
}

// begin prepares the solver stack for a new path with the given prefix.
func (w *worker) begin(prefix []entry) *pathCtx {
	common := 0
	for common < len(prefix) && common < len(w.prevTrace) && sameEntry(prefix[common], w.prevTrace[common]) {
		common++
	}
	keep := 0
	if common < len(w.prevPcLen) {
		keep = w.prevPcLen[common]
	} else {
		keep = w.prevPcN
	}
	if common == 0 {
		keep = 0
	}
	if w.synced > keep {
		w.s.Pop(w.synced - keep)
		w.synced = keep
	}
	return &pathCtx{w: w, prefix: prefix, noModel: noModelEnv}
}

func (p *pathCtx) sync() {
	for p.w.synced < len(p.pc) {
		p.w.s.Push()
		p.w.s.Assert(p.pc[p.w.synced])
		p.w.synced++
	}
}

func (p *pathCtx) record(e entry) {
	if debugTrace {
		fmt.Fprintf(os.Stderr, "  rec[%d] kind=%d choice=%d val=%d (prefix %d) %s\n", len(p.trace), e.kind, e.choice, e.val, len(p.prefix), callerNames())
	}
	p.trace = append(p.trace, e)
	p.pcLenAt = append(p.pcLenAt, len(p.pc))
}

// next returns the next prefix entry if still replaying.
func (p *pathCtx) next(kind entKind) (entry, bool) {
	if p.di < len(p.prefix) {
		e := p.prefix[p.di]
		if e.kind != kind && !(kind == eConc && e.kind == eConcNot) {
			panic(fmt.Sprintf("engine: nondeterministic re-execution: entry %d kind %d, expected %d", p.di, e.kind, kind))
		}
		p.di++
		return e, true
	}
	return entry{}, false
}

func (p *pathCtx) addPC(t *Term) {
	if t.isTrue() {
		return
	}
	p.pc = append(p.pc, t)
	p.learn(t, true)
}

// learn records that condition t has the given truth value under the PC.
func (p *pathCtx) learn(t *Term, v bool) {
	for t.op == OpNot && t.w == 0 {
		t, v = t.a, !v
	}
	if p.known == nil {
		p.known = map[string]bool{}
	}
	p.known[termKey(t)] = v
	// a true conjunction fixes its conjuncts; a false disjunction its disjuncts
	if t.w == 0 && ((t.op == OpAnd && v) || (t.op == OpOr && !v)) {
		p.learn(t.a, v)
		p.learn(t.b, v)
	}
}

func (p *pathCtx) lookupKnown(t *Term) (bool, bool) {
	v := true
	for t.op == OpNot && t.w == 0 {
		t, v = t.a, !v
	}
	if p.known == nil {
		return false, false
	}
	r, ok := p.known[termKey(t)]
	return r == v, ok
}

// checkWith asks whether PC ∧ t is satisfiable.
func (p *pathCtx) checkWith(t *Term, ms int) SatResult {
	p.sync()
	s := p.w.s
	s.Push()
	s.Assert(t)
	r := s.Check(ms)
	s.Pop(1)
	return r
}

// checkAdopt is checkWith that, on Sat, fetches the model so that it can be
// adopted if the caller goes on under PC ∧ t.
func (p *pathCtx) checkAdopt(t *Term, ms int) (SatResult, map[string]uint64) {
	if p.noModel {
		return p.checkWith(t, ms), nil
	}
	p.sync()
	s := p.w.s
	s.Push()
	s.Assert(t)
	r := s.Check(ms)
	var m map[string]uint64
	if r == Sat {
		if vals, err := s.GetVarValues(p.vars); err == nil {
			m = make(map[string]uint64, len(vals))
			for k, v := range p.vars {
				m[v.name] = vals[k]
			}
		}
	}
	s.Pop(1)
	return r, m
}

// evalModel evaluates a condition under the cached model: 1 true, 0 false, -1 unknown.
func (p *pathCtx) evalModel(c *Term) int {
	if p.mdl == nil || p.noModel {
		return -1
	}
	if p.memo == nil {
		p.memo = map[*Term]uint64{}
	}
	return int(evalTerm(c, p.mdl, p.memo) & 1)
}

var debugModel = os.Getenv("GOSYM_CHECK_MODEL") != ""
var noModelEnv = os.Getenv("GOSYM_NO_MODEL") != ""

func (p *pathCtx) setModel(m map[string]uint64) {
	p.mdl = m
	p.memo = nil
	if debugModel && m != nil {
		memo := map[*Term]uint64{}
		for k, t := range p.pc {
			if evalTerm(t, m, memo)&1 != 1 {
				fmt.Fprintf(os.Stderr, "MODEL MISMATCH: pc[%d] evaluates false: %s\n model=%v\n", k, termString(t, 6), m)
				break
			}
		}
	}
}

func termString(t *Term, depth int) string {
	if t.op == OpConst {
		return constString(t)
	}
	if t.op == OpVar {
		return t.name
	}
	if depth == 0 {
		return "..."
	}
	s := fmt.Sprintf("(op%d", t.op)
	if t.op == OpExtract {
		s += fmt.Sprintf("[%d:%d]", t.k>>8, t.k&0xff)
	}
	for _, x := range []*Term{t.a, t.b, t.c} {
		if x != nil {
			s += " " + termString(x, depth-1)
		}
	}
	return s + ")"
}

// branch decides a symbolic condition, forking when both sides are feasible.
func (p *pathCtx) branch(c *Term) bool {
	if c.isConst() {
		return c.isTrue()
	}
	if e, ok := p.next(eBranch); ok {
		p.record(e)
		if e.choice == 1 {
			p.addPC(c)
			return true
		}
		p.addPC(mkNot(c))
		return false
	}
	if v, ok := p.lookupKnown(c); ok {
		// already decided by the path condition (syntactically the same condition)
		ch := 0
		if v {
			ch = 1
		}
		p.record(entry{kind: eBranch, choice: ch})
		if v {
			p.addPC(c)
		} else {
			p.addPC(mkNot(c))
		}
		return v
	}
	p.w.e.mu.Lock()
	p.w.e.Stats.Branches++
	p.w.e.mu.Unlock()
	switch p.evalModel(c) {
	case 1:
		// the cached model satisfies PC ∧ c: only the other side needs a query
		if p.checkWith(mkNot(c), p.w.e.QueryMs) == Unsat {
			p.record(entry{kind: eBranch, choice: 1})
			p.addPC(c)
			return true
		}
	case 0:
		r1, m1 := p.checkAdopt(c, p.w.e.QueryMs)
		if r1 == Unsat {
			p.record(entry{kind: eBranch, choice: 0})
			p.addPC(mkNot(c))
			return false
		}
		p.setModel(m1)
	default:
		r1, m1 := p.checkAdopt(c, p.w.e.QueryMs)
		if r1 == Unsat {
			p.record(entry{kind: eBranch, choice: 0})
			p.addPC(mkNot(c))
			return false
		}
		r2 := p.checkWith(mkNot(c), p.w.e.QueryMs)
		p.setModel(m1)
		if r2 == Unsat {
			p.record(entry{kind: eBranch, choice: 1})
			p.addPC(c)
			return true
		}
	}
	// both feasible (or unknown): take true, queue false
	alt := make([]entry, len(p.trace)+1)
	copy(alt, p.trace)
	alt[len(p.trace)] = entry{kind: eBranch, choice: 0}
	p.w.e.push(alt)
	p.record(entry{kind: eBranch, choice: 1})
	p.addPC(c)
	return true
}

// choose picks one of n alternatives (no solver involved), forking.
func (p *pathCtx) choose(n int) int {
	if n <= 1 {
		return 0
	}
	if e, ok := p.next(eChoice); ok {
		p.record(e)
		return e.choice
	}
	for c := n - 1; c >= 1; c-- {
		alt := make([]entry, len(p.trace)+1)
		copy(alt, p.trace)
		alt[len(p.trace)] = entry{kind: eChoice, choice: c, n: n}
		p.w.e.push(alt)
	}
	p.record(entry{kind: eChoice, choice: 0, n: n})
	return 0
}

const maxConcretize = 40

// concretize enumerates the feasible values of t by forking.
func (p *pathCtx) concretize(t *Term) uint64 {
	if t.isConst() {
		return t.k
	}
	var excl []uint64
	if e, ok := p.next(eConc); ok {
		if e.kind == eConc {
			p.record(e)
			p.addPC(mkBin(OpEq, t, bvConst(t.w, e.val)))
			return e.val
		}
		excl = e.excl
	}
	if len(excl) >= maxConcretize {
		panic(unsupported{"concretize: more than 40 feasible values for an index/length"})
	}
	var v uint64
	if len(excl) == 0 && p.mdl != nil && !p.noModel {
		// the cached model of the PC provides a feasible value without a query
		if p.memo == nil {
			p.memo = map[*Term]uint64{}
		}
		v = evalTerm(t, p.mdl, p.memo)
	} else {
		c := tTrue
		for _, x := range excl {
			c = mkBin(OpAnd, c, mkNot(mkBin(OpEq, t, bvConst(t.w, x))))
		}
		p.sync()
		s := p.w.s
		s.Push()
		s.Assert(c)
		r := s.Check(p.w.e.QueryMs)
		if r == Unsat {
			s.Pop(1)
			panic(pathEnd{"concretize-exhausted"})
		}
		if r == Unknown {
			s.Pop(1)
			panic(unsupported{"concretize: solver unknown"})
		}
		vals, err := s.GetValues([]*Term{t})
		var m map[string]uint64
		if err == nil && !p.noModel {
			if mv, err2 := s.GetVarValues(p.vars); err2 == nil {
				m = make(map[string]uint64, len(mv))
				for k, x := range p.vars {
					m[x.name] = mv[k]
				}
			}
		}
		s.Pop(1)
		if err != nil {
			panic(unsupported{"concretize: " + err.Error()})
		}
		v = vals[0]
		p.setModel(m)
	}
	alt := make([]entry, len(p.trace)+1)
	copy(alt, p.trace)
	nex := append(append([]uint64{}, excl...), v)
	alt[len(p.trace)] = entry{kind: eConcNot, excl: nex}
	p.w.e.push(alt)
	p.record(entry{kind: eConc, val: v})
	p.addPC(mkBin(OpEq, t, bvConst(t.w, v)))
	return v
}

// assume adds c to the path condition; ends the path when infeasible.
func (p *pathCtx) assume(c *Term) {
	if c.isTrue() {
		return
	}
	if c.isFalse() {
		panic(pathEnd{"assume-false"})
	}
	if e, ok := p.next(eCheck); ok {
		p.record(e)
		if e.choice == 0 {
			panic(pathEnd{"assume-infeasible"})
		}
		p.addPC(c)
		return
	}
	if p.evalModel(c) != 1 {
		r, m := p.checkAdopt(c, p.w.e.QueryMs)
		if r == Unsat {
			p.record(entry{kind: eCheck, choice: 0})
			panic(pathEnd{"assume-infeasible"})
		}
		p.setModel(m)
	}
	p.record(entry{kind: eCheck, choice: 1})
	p.addPC(c)
}

func (p *pathCtx) model() ([]NondetValue, bool) {
	// caller has the solver in a Sat state with the model available
	var out []NondetValue
	for _, n := range p.nondets {
		nv := NondetValue{Tag: n.Tag, Kind: n.Kind}
		if n.Kind == "choice" {
			nv.U = uint64(n.cval)
			out = append(out, nv)
			continue
		}
		vals, err := p.w.s.GetValues(n.terms)
		if err != nil {
			return nil, false
		}
		switch n.Kind {
		case "str", "bytes":
			nv.Bytes = append([]uint64{}, vals...)
		default:
			nv.U = vals[0]
		}
		out = append(out, nv)
	}
	return out, true
}

// assert checks PC ⇒ c; a counterexample is recorded with its model.
func (p *pathCtx) assert(id string, c *Term) {
	e := p.w.e
	e.mu.Lock()
	e.Stats.AssertSites[id]++
	e.mu.Unlock()
	if c.isTrue() {
		return
	}
	if ent, ok := p.next(eCheck); ok {
		p.record(ent)
		if ent.choice == 0 {
			panic(pathEnd{"assert-failed-always"})
		}
		p.addPC(c)
		return
	}
	e.mu.Lock()
	e.Stats.AssertChecks++
	e.mu.Unlock()
	p.sync()
	s := p.w.s
	s.Push()
	s.Assert(mkNot(c))
	r := s.Check(e.AssertMs)
	switch r {
	case Unsat:
		s.Pop(1)
		e.mu.Lock()
		e.Stats.AssertsHeld++
		e.mu.Unlock()
		p.record(entry{kind: eCheck, choice: 1})
		p.addPC(c)
		return
	case Unknown:
		s.Pop(1)
		panic(unsupported{"assertion query unknown/timeout: " + id})
	}
	nd, ok := p.model()
	s.Pop(1)
	if !ok {
		panic(unsupported{"model extraction failed for " + id})
	}
	e.addViolation(Violation{Harness: e.Harness, Assert: id, Kind: "assert", Nondet: nd})
	// continue under the assumption that the assertion holds, if possible
	p.setModel(nil)
	if c.isFalse() || p.checkWith(c, e.QueryMs) == Unsat {
		p.record(entry{kind: eCheck, choice: 0})
		panic(pathEnd{"assert-failed-always"})
	}
	p.record(entry{kind: eCheck, choice: 1})
	p.addPC(c)
}

func (e *Explorer) addViolation(v Violation) {
	e.mu.Lock()
	defer e.mu.Unlock()
	key := v.Kind + ":" + v.Assert
	n := 0
	for _, x := range e.Violations {
		if x.Kind+":"+x.Assert == key {
			n++
		}
	}
	if n >= 3 { // keep up to three distinct models per assertion
		return
	}
	e.Violations = append(e.Violations, v)
}

// witness records a sample model at a Reached point.
func (p *pathCtx) reached(tag string) {
	e := p.w.e
	e.mu.Lock()
	e.Stats.Reached[tag]++
	want := len(e.Stats.Samples) < e.MaxSamples && e.Stats.Reached[tag] <= 1
	e.mu.Unlock()
	if !want || p.di < len(p.prefix) {
		return
	}
	p.sync()
	if p.w.s.Check(e.QueryMs) == Sat {
		if nd, ok := p.model(); ok {
			e.mu.Lock()
			e.Stats.Samples = append(e.Stats.Samples, Violation{Harness: e.Harness, Assert: "reached:" + tag, Kind: "sample", Nondet: nd})
			e.mu.Unlock()
		}
	}
}

func (e *Explorer) sortedViolations() []Violation {
	sort.SliceStable(e.Violations, func(i, j int) bool { return e.Violations[i].Assert < e.Violations[j].Assert })
	return e.Violations
}

func callerNames() string {
	pc := make([]uintptr, 8)
	n := runtime.Callers(3, pc)
	fr := runtime.CallersFrames(pc[:n])
	var out []string
	for {
		f, more := fr.Next()
		out = append(out, f.Function[strings.LastIndex(f.Function, ".")+1:])
		if !more {
			break
		}
	}
	return strings.Join(out, "<")
}
