// gosym: bounded symbolic execution of Go SSA with an SMT solver.
package main

import (
	"encoding/json"
	"flag"
	"fmt"
	"os"
	"runtime"
	"runtime/debug"
	"runtime/pprof"
	"strings"
	"time"

	"gosym/interp"
)

func main() {
	dir := flag.String("dir", "/repo", "repository root")
	pkg := flag.String("pkg", "", "package pattern containing the harness")
	ov := flag.String("overlay", "", "JSON file {\"Replace\": {virtual: real}} (same format as go build -overlay)")
	harness := flag.String("harness", "", "comma-separated harness function names")
	out := flag.String("out", "", "result JSON file")
	workers := flag.Int("workers", 0, "worker count (default: all cores)")
	budget := flag.Duration("budget", 0, "wall-clock budget per harness")
	maxPaths := flag.Int("maxpaths", 0, "path budget per harness")
	maxSteps := flag.Int64("maxsteps", 0, "SSA instruction budget per path")
	queryMs := flag.Int("query-ms", 10000, "feasibility query timeout")
	assertMs := flag.Int("assert-ms", 60000, "assertion query timeout")
	solver := flag.String("solver", "z3", "solver binary (speaks SMT-LIB2 on stdin with -in)")
	trace := flag.Bool("trace", false, "trace SSA instructions")
	slog := flag.String("solver-log", "", "write worker 0's solver transcript here")
	tags := flag.String("tags", "verif", "build tags")
	thorough := flag.Bool("thorough", false, "verifrt.Thorough() returns true")
	cpuprof := flag.String("cpuprofile", "", "write CPU profile")
	memprof := flag.String("memprofile", "", "write alloc profile")
	flag.Parse()
	os.Setenv("PATH", "/opt/veriftools/go1.26.8/bin:"+os.Getenv("PATH"))
	os.Setenv("GOTOOLCHAIN", "local")
	if *memprof != "" {
		runtime.MemProfileRate = 64 << 10
		defer func() {
			f, _ := os.Create(*memprof)
			pprof.Lookup("allocs").WriteTo(f, 0)
			f.Close()
		}()
	}
	if os.Getenv("GOGC") == "" {
		debug.SetGCPercent(100)
	}
	if *cpuprof != "" {
		f, _ := os.Create(*cpuprof)
		pprof.StartCPUProfile(f)
		defer pprof.StopCPUProfile()
	}

	cfg := interp.Config{Dir: *dir, Pkg: *pkg, Tags: *tags, Workers: *workers, Solver: *solver,
		MaxPaths: *maxPaths, Budget: *budget, MaxSteps: *maxSteps, QueryMs: *queryMs, AssertMs: *assertMs,
		Trace: *trace, SolverLog: *slog, Thorough: *thorough}
	if *ov != "" {
		b, err := os.ReadFile(*ov)
		if err != nil {
			fatal(err)
		}
		var o struct{ Replace map[string]string }
		if err := json.Unmarshal(b, &o); err != nil {
			fatal(err)
		}
		cfg.Overlay = map[string][]byte{}
		for v, r := range o.Replace {
			c, err := os.ReadFile(r)
			if err != nil {
				fatal(err)
			}
			cfg.Overlay[v] = c
		}
	}
	t0 := time.Now()
	prog, err := interp.Load(cfg)
	if err != nil {
		fatal(err)
	}
	fmt.Fprintf(os.Stderr, "loaded %s in %.1fs\n", *pkg, time.Since(t0).Seconds())
	type output struct {
		LoadS   float64          `json:"load_s"`
		Results []*interp.Result `json:"results"`
	}
	o := output{LoadS: prog.LoadS}
	for _, h := range strings.Split(*harness, ",") {
		h = strings.TrimSpace(h)
		if h == "" {
			continue
		}
		r, err := interp.RunHarness(prog, cfg, h)
		if err != nil {
			fatal(err)
		}
		fmt.Fprintf(os.Stderr, "%s: paths=%d ended=%v asserts=%d/%d violations=%d unsupported=%d engine-errors=%d queries(s/u/?)=%d/%d/%d solver=%.1fs wall=%.1fs\n",
			h, r.Paths, r.PathsEnded, r.AssertsHeld, r.AssertChecks, len(r.Violations), len(r.Unsupported), len(r.EngineErrors),
			r.QuerySat, r.QueryUnsat, r.QueryUnknown, r.SolverS, r.WallS)
		for k, v := range r.Unsupported {
			fmt.Fprintf(os.Stderr, "  unsupported x%d: %s\n", v, k)
		}
		for k, v := range r.EngineErrors {
			fmt.Fprintf(os.Stderr, "  engine-error x%d: %s\n", v, k)
		}
		for _, v := range r.Violations {
			fmt.Fprintf(os.Stderr, "  violation %s %s %s\n", v.Kind, v.Assert, v.Detail)
		}
		o.Results = append(o.Results, r)
	}
	b, _ := json.MarshalIndent(o, "", " ")
	if *out != "" {
		if err := os.WriteFile(*out, b, 0o644); err != nil {
			fatal(err)
		}
	} else {
		os.Stdout.Write(b)
	}
}

func fatal(err error) {
	fmt.Fprintln(os.Stderr, "gosym:", err)
	os.Exit(3)
}
