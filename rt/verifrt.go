//go:build verif

// Package verifrt is the harness runtime of /verif. Under the gosym engine
// every function here is intercepted (symbolic meaning). Compiled natively it
// replays one solver model: nondeterministic values are read, in call order,
// from the JSON file named by VERIF_REPLAY, and Assert reports whether the
// recorded violation reproduces against the real code.
package verifrt

import (
	"encoding/json"
	"fmt"
	"os"
	"reflect"
	"strings"
	"time"
	"unsafe"
)

type NondetValue struct {
	Tag   string   `json:"tag"`
	Kind  string   `json:"kind"`
	U     uint64   `json:"u"`
	Bytes []uint64 `json:"bytes"`
}

type Replay struct {
	Harness string        `json:"harness"`
	Assert  string        `json:"assert"`
	Kind    string        `json:"kind"`
	Nondet  []NondetValue `json:"nondet"`
}

// AssertFailed is the panic value raised by a failing Assert in replay mode.
type AssertFailed struct{ ID string }

// SampleEnd is raised when a witness sample (a model of a path prefix) runs out
// of recorded values: the sampled prefix was replayed completely.
type SampleEnd struct{}

// AssumeFailed is raised when the replayed values violate an assumption
// (the model does not correspond to a real execution).
type AssumeFailed struct{ Where string }

var (
	cur    *Replay
	pos    int
	Passed []string
)

func Load(path string) (*Replay, error) {
	b, err := os.ReadFile(path)
	if err != nil {
		return nil, err
	}
	r := &Replay{}
	if err := json.Unmarshal(b, r); err != nil {
		return nil, err
	}
	cur, pos, Passed, ReachedTags = r, 0, nil, nil
	return r, nil
}

func next(tag, kind string) NondetValue {
	if cur == nil {
		panic("verifrt: no replay loaded (native execution needs VERIF_REPLAY)")
	}
	// uninterpreted-function values are recorded under "uf:<name>"
	for pos < len(cur.Nondet) {
		v := cur.Nondet[pos]
		pos++
		if v.Tag == tag {
			return v
		}
		if strings.HasPrefix(v.Tag, "time.Now") || v.Tag == "addr" || v.Tag == "rand" {
			continue // clock readings are not replayed natively
		}
		panic(AssumeFailed{fmt.Sprintf("replay diverged: want tag %q, recorded %q", tag, v.Tag)})
	}
	if cur.Kind == "sample" {
		panic(SampleEnd{})
	}
	panic(AssumeFailed{fmt.Sprintf("replay diverged: no recorded value for %q", tag)})
}

func U64(tag string) uint64 { return next(tag, "u64").U }
func U32(tag string) uint32 { return uint32(next(tag, "u32").U) }
func U16(tag string) uint16 { return uint16(next(tag, "u16").U) }
func U8(tag string) uint8   { return uint8(next(tag, "u8").U) }
func I64(tag string) int64  { return int64(next(tag, "i64").U) }
func Bool(tag string) bool  { return next(tag, "bool").U != 0 }

// Int returns an integer in [lo,hi].
func Int(tag string, lo, hi int) int { return int(int64(next(tag, "int").U)) }

// Choice returns a value in [0,n); the engine forks over all of them.
func Choice(tag string, n int) int { return int(next(tag, "choice").U) }

func bytesOf(v NondetValue) []byte {
	b := make([]byte, len(v.Bytes))
	for i, x := range v.Bytes {
		b[i] = byte(x)
	}
	return b
}

// Str returns a string of length <= maxLen with unconstrained bytes.
func Str(tag string, maxLen int) string { return string(bytesOf(next(tag, "str"))) }

// StrN returns a string of exactly n unconstrained bytes.
func StrN(tag string, n int) string { return string(bytesOf(next(tag, "str"))) }

// Bytes returns a byte slice of length <= maxLen (nil when empty).
func Bytes(tag string, maxLen int) []byte {
	b := bytesOf(next(tag, "bytes"))
	if len(b) == 0 {
		return nil
	}
	return b
}

func Assume(c bool) {
	if !c {
		panic(AssumeFailed{"Assume"})
	}
}

func Assert(id string, c bool) {
	if !c {
		panic(AssertFailed{id})
	}
	Passed = append(Passed, id)
}

// ReachedTags lists the Reached points passed by the native run.
var ReachedTags []string

func Reached(tag string) {
	ReachedTags = append(ReachedTags, tag)
	// a witness sample is the model of the path prefix that ends at this tag: once all its values are
	// consumed and the tag is reached, the sampled prefix has been replayed completely
	if cur != nil && cur.Kind == "sample" && cur.Assert == "reached:"+tag && pos >= len(cur.Nondet) {
		panic(SampleEnd{})
	}
}

// Thorough reports whether the thorough tier (deeper bounds) was requested.
func Thorough() bool { return os.Getenv("VERIF_TIER") == "thorough" }

// Symbolic reports whether the harness runs under the symbolic engine.
func Symbolic() bool { return false }

// Replace substitutes, under the engine only, the function with the given
// fully qualified name by fn (a stub written in Go). Natively the real
// function runs; a counterexample that depends on the stub does not replay.
func Replace(name string, fn any) {}

// PermuteMapsIn limits the arbitrary iteration order to maps ranged in functions whose name contains substr
// (engine only; natively the runtime picks the order). An empty string switches it off.
func PermuteMapsIn(substr string) {}

// PermuteMaps makes every map iteration order a symbolic choice (engine only).
func PermuteMaps(on bool) {}

// IgnoreGo lets the engine drop go statements whose caller or callee name
// contains pat (the dropped goroutine's effects are outside the claim).
func IgnoreGo(pat string) {}

func Note(k string, v any) {}

// UFBool is an arbitrary but consistent predicate of its arguments. Natively the
// recorded value of every call is replayed in call order (the solver's model
// already makes equal arguments give equal values).
func UFBool(name string, args ...string) bool {
	return next("uf:"+name, "bool").U != 0
}

func UFU64(name string, args ...uint64) uint64 { return next("uf:"+name, "u64").U }

func Concrete(x int) int { return x }

// ClockReadings returns, in native replay, the unix seconds of the symbolic clock readings of the
// replayed model (the real code reads the real clock natively, so a harness whose counterexample
// depends on where an instant lies between two readings uses them to place that instant
// relative to the real clock). Under the engine it returns nil.
func ClockReadings() []int64 {
	var out []int64
	if cur == nil {
		return nil
	}
	for _, v := range cur.Nondet {
		if strings.HasPrefix(v.Tag, "time.Now") {
			out = append(out, int64(v.U)-62135596800)
		}
	}
	return out
}

// FireTimers lets every armed time.AfterFunc timer fire. Under the engine timers never fire on
// their own: the armed, unstopped callbacks run here, in the order they were armed. Natively the
// real timers run: this waits d, which the harness chooses longer than any timer it armed.
func FireTimers(d time.Duration) { time.Sleep(d) }

// SetUnexported stores val into the (possibly unexported, possibly promoted) field `field` of the
// struct ptr points to. It exists to put a dependency's zero-value object into a state its own
// API only reaches through goroutines (a raft.Raft that reports "leader"). The engine performs
// the same store on its own representation of the struct.
func SetUnexported(ptr any, field string, val any) {
	f := reflect.ValueOf(ptr).Elem().FieldByName(field)
	if !f.IsValid() {
		panic("verifrt.SetUnexported: no field " + field)
	}
	reflect.NewAt(f.Type(), unsafe.Pointer(f.UnsafeAddr())).Elem().Set(reflect.ValueOf(val).Convert(f.Type()))
}

// DeepCopy returns a structural copy of v (engine only: it backs the "ideal
// codec" stubs, which are never active natively).
func DeepCopy(v any) any { return v }

// CopyInto stores a copy of *src (or src) into *dst when the types agree
// (engine only; the native build uses the real codec instead).
func CopyInto(dst, src any) bool { panic("verifrt.CopyInto is only meaningful under the engine") }

func Ite(c bool, x, y uint64) uint64 {
	if c {
		return x
	}
	return y
}
func And(a, b bool) bool     { return a && b }
func Or(a, b bool) bool      { return a || b }
func Implies(a, b bool) bool { return !a || b }
func Not(a bool) bool        { return !a }
func StrEq(a, b string) bool { return a == b }
func StrLess(a, b string) bool { return a < b }
func HasPrefix(s, p string) bool { return strings.HasPrefix(s, p) }

// RunNative executes harness h (with optional setup) under the loaded replay
// and classifies the outcome.
func RunNative(setup func() any, h func(any), h0 func()) (outcome string) {
	defer func() {
		if r := recover(); r != nil {
			switch r := r.(type) {
			case AssertFailed:
				outcome = "ASSERT-FAILED " + r.ID
			case AssumeFailed:
				outcome = "ASSUME-FAILED " + r.Where
			case SampleEnd:
				outcome = "COMPLETED"
			default:
				outcome = fmt.Sprintf("PANIC %v", r)
			}
		}
	}()
	if h0 != nil {
		h0()
	} else {
		var st any
		if setup != nil {
			st = setup()
		}
		h(st)
	}
	return "COMPLETED"
}
