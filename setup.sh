#!/bin/sh
# Build the gosym engine offline from files on disk.
set -e
cd "$(dirname "$0")/engine"
export GOFLAGS=-mod=mod GOPROXY=off GOSUMDB=off GOTOOLCHAIN=local PATH=/opt/veriftools/go1.26.8/bin:$PATH
mkdir -p ../bin
go build -o ../bin/gosym ./cmd/gosym
