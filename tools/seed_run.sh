#!/bin/sh
# seed_run.sh <seed-name> <property-id> [check args...] : apply the seeded change to /repo, run the check, undo.
NAME=$1; PID=$2; shift 2
cd /repo || exit 2
git diff --quiet || { echo "/repo has uncommitted changes"; exit 2; }
git apply /verif/seeded/$NAME/patch.diff || exit 2
cd /verif && ./check $PID "$@" > /verif/out/seed_$NAME.log 2>&1
RC=$?
git -C /repo checkout -- .
tail -15 /verif/out/seed_$NAME.log
echo "seed=$NAME property=$PID exit=$RC"
