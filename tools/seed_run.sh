#!/bin/sh
# seed_run.sh <seed-name> <property-id> [check args...] : apply the seeded change to /repo, run the check, undo.
NAME=$1; PID=$2; shift 2
cd /repo || exit 2
git diff --quiet || { echo "/repo has uncommitted changes"; exit 2; }
git apply /verif/seeded/$NAME/patch.diff || exit 2
# the evidence file describes runs on the unchanged tree: keep it, the seeded run's evidence goes to out/
cp /verif/evidence/$PID.json /verif/out/evidence_before_seed_$PID.json 2>/dev/null
cd /verif && ./check $PID "$@" > /verif/out/seed_$NAME.log 2>&1
RC=$?
git -C /repo checkout -- .
cp /verif/evidence/$PID.json /verif/out/seed_$NAME.evidence.json 2>/dev/null
cp /verif/out/evidence_before_seed_$PID.json /verif/evidence/$PID.json 2>/dev/null
tail -15 /verif/out/seed_$NAME.log
echo "seed=$NAME property=$PID exit=$RC"
