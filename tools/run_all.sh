#!/bin/sh
# run every registered check (quick tier) on the current tree; summary on stdout
cd "$(dirname "$0")/.." || exit 2; mkdir -p out
for p in $(python3 -c "import json;print(' '.join(c['property_id'] for c in json.load(open('MANIFEST.json'))['checks']))"); do
  t0=$(date +%s)
  ./check $p --tier ${1:-quick} > out/runall_$p.log 2>&1
  rc=$?
  t1=$(date +%s)
  echo "$p exit=$rc wall=$((t1-t0))s $(grep -c '^KNOWN-FINDING' out/runall_$p.log) known $(tail -1 out/runall_$p.log | cut -c1-160)"
done
