#!/bin/sh
# run_all.sh [tier] [Cxx ...]: run the registered checks (default: all, quick tier) on the current tree; summary on stdout
cd "$(dirname "$0")/.." || exit 2; mkdir -p out
TIER=${1:-quick}
[ $# -gt 0 ] && shift
LIST=${@:-$(python3 -c "import json;print(' '.join(c['property_id'] for c in json.load(open('MANIFEST.json'))['checks']))")}
for p in $LIST; do
  t0=$(date +%s)
  ./check $p --tier $TIER > out/runall_$p.log 2>&1
  rc=$?
  t1=$(date +%s)
  echo "$p exit=$rc wall=$((t1-t0))s $(grep -c '^KNOWN-FINDING' out/runall_$p.log) known $(tail -1 out/runall_$p.log | cut -c1-160)"
done
