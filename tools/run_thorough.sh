#!/bin/sh
# run_thorough.sh [Cxx ...]: thorough tier of the listed (default: all) checks, each under a time limit
# (VERIF_THOROUGH_LIMIT seconds, default 3600); summary on stdout. A check that hits the limit is reported
# as TIMEOUT - its thorough bounds are then too large for this machine and must be reduced.
cd "$(dirname "$0")/.." || exit 2; mkdir -p out
LIM=${VERIF_THOROUGH_LIMIT:-3600}
LIST=${@:-$(python3 -c "import json;print(' '.join(c['property_id'] for c in json.load(open('MANIFEST.json'))['checks']))")}
for p in $LIST; do
  t0=$(date +%s)
  timeout $LIM ./check $p --tier thorough > out/thorough_$p.log 2>&1
  rc=$?
  t1=$(date +%s)
  [ $rc -eq 124 ] && { echo "$p TIMEOUT after ${LIM}s"; continue; }
  echo "$p exit=$rc wall=$((t1-t0))s $(grep -c '^KNOWN-FINDING' out/thorough_$p.log) known $(tail -1 out/thorough_$p.log | cut -c1-160)"
done
