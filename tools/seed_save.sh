#!/bin/sh
# seed_save.sh <worktree> <name> : keep a confirmed seeded change under /verif/seeded/<name>/
WT=$1; NAME=$2
D=/verif/seeded/$NAME
mkdir -p $D
cp $WT/_seed/patch.diff $D/patch.diff
cp $WT/_seed/demo_test.go $D/demo_test.go
cp $WT/_seed/meta.json $D/meta.agent.json
echo saved $D
