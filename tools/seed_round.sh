#!/bin/sh
# seed_round.sh <worktree> <Cxx> <seed-name> [test run-filter] : confirm a sub-agent's change, keep it, run the check against it
WT=$1; ID=$2; NAME=$3; FILTER=$4
/verif/tools/verify_seed.sh $WT $ID "$FILTER" 2>&1 | tail -1 | tee /tmp/seed_round_$ID.txt
grep -q "demo_with_change_exit=1 existing_fail=0 demo_without_exit=0" /tmp/seed_round_$ID.txt || { echo "NOT CONFIRMED"; exit 1; }
/verif/tools/seed_save.sh $WT $NAME
git -C /repo worktree remove --force $WT
/verif/tools/seed_run.sh $NAME $ID 2>&1 | tail -3
