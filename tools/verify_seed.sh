#!/bin/sh
# verify_seed.sh <worktree> <id> : confirm a seeded change (patch applied in worktree, demo in place)
# 1. builds 2. existing tests of touched packages pass (demo skipped) 3. demo fails with change 4. demo passes without
export GOFLAGS=-mod=mod GOPROXY=off GOSUMDB=off GOTOOLCHAIN=local PATH=/opt/veriftools/go1.26.8/bin:$PATH
WT=$1; ID=$2
cd $WT || exit 2
PKGS=$(grep '^+++ b/' _seed/patch.diff | sed 's|+++ b/||' | xargs -n1 dirname | sort -u | sed 's|^|./|')
DEMO=$(grep -l "TestSeed" $(git ls-files --others --exclude-standard | grep _test.go | grep -v "^_seed/") 2>/dev/null | head -1)
DEMOPKG=./$(dirname $DEMO)
TESTNAME=$(grep -o "func TestSeed[A-Za-z0-9_]*" $DEMO | head -1 | sed 's/func //')
echo "pkgs=$PKGS demo=$DEMO test=$TESTNAME"
RUNFILTER=${3:-}
git apply -R --check _seed/patch.diff >/dev/null 2>&1 || { echo "patch not applied? applying"; git apply _seed/patch.diff; }
go build $PKGS || { echo "RESULT build=FAIL"; exit 1; }
echo "--- demo with change (expect FAIL)"
go test -vet=off -count=1 -run "^$TESTNAME\$" $DEMOPKG > /tmp/vs_$ID.demo1 2>&1; D1=$?
tail -5 /tmp/vs_$ID.demo1
echo "--- existing tests with change (expect ok)"
for p in $PKGS; do
  if [ -n "$RUNFILTER" ]; then go test -vet=off -count=1 -skip "^TestSeed" -run "$RUNFILTER" $p > /tmp/vs_$ID.exist 2>&1; else go test -vet=off -count=1 -skip "^TestSeed" $p > /tmp/vs_$ID.exist 2>&1; fi; E=$?
  tail -3 /tmp/vs_$ID.exist
  if [ $E -ne 0 ]; then
    # timing-sensitive tests fail under load: re-run only the failed tests, twice
    FAILED=$(grep -- '^--- FAIL: ' /tmp/vs_$ID.exist | awk '{print $3}' | sort -u | tr '\n' '|' | sed 's/|$//')
    echo "retrying failed: $FAILED"
    E2=1
    if [ -n "$FAILED" ]; then
      for try in 1 2; do
        go test -vet=off -count=1 -run "^($FAILED)\$" $p > /tmp/vs_$ID.exist2 2>&1 && { E2=0; break; }
      done
      tail -3 /tmp/vs_$ID.exist2
    fi
    [ $E2 -ne 0 ] && EX=1
  fi
done
git apply -R _seed/patch.diff
echo "--- demo without change (expect ok)"
go test -vet=off -count=1 -run "^$TESTNAME\$" $DEMOPKG > /tmp/vs_$ID.demo2 2>&1; D2=$?
tail -3 /tmp/vs_$ID.demo2
git apply _seed/patch.diff
echo "RESULT id=$ID demo_with_change_exit=$D1 existing_fail=${EX:-0} demo_without_exit=$D2"
