#!/bin/sh
# Run the repository's own test suite (guard off: no verif tag, no overlay) for the
# main module and report every test of BASELINE.json's stable_pass set that does not pass.
# usage: tools/baseline_check.sh [package pattern ...]   (default ./...)
export GOFLAGS=-mod=mod GOPROXY=off GOSUMDB=off GOTOOLCHAIN=local PATH=/opt/veriftools/go1.26.8/bin:$PATH
OUT=${BASELINE_OUT:-/tmp/baseline_run.json}
cd /repo || exit 2
PKGS=${@:-./...}
go test -json -vet=off -count=1 -timeout 25m $PKGS > $OUT 2>/tmp/baseline_run.err
python3 - "$OUT" <<'EOF'
import json,sys
base=set(json.load(open('/root/.vp/BASELINE.json'))['stable_pass'])
res={}
for line in open(sys.argv[1]):
    try: e=json.loads(line)
    except Exception: continue
    if e.get('Action') in ('pass','fail','skip') and e.get('Test'):
        res[e['Package']+'::'+e['Test']]=e['Action']
ran_pkgs=set(k.split('::')[0] for k in res)
bad=[t for t in sorted(base) if t.split('::')[0] in ran_pkgs and res.get(t)!='pass']
print("tests run:",len(res),"baseline tests in the packages run:",sum(1 for t in base if t.split('::')[0] in ran_pkgs))
print("baseline tests not passing:",len(bad))
for t in bad[:60]: print("  ",t,res.get(t))
EOF
