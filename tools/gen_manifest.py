#!/usr/bin/env python3
"""Regenerate /verif/MANIFEST.json from harness/*/check.json and not_applicable.json."""
import json, os, glob
V = os.path.dirname(os.path.dirname(os.path.abspath(__file__)))
props = [json.loads(l)["id"] for l in open(os.path.join(V, "properties.jsonl"))]
base = json.load(open("/root/.vp/BASELINE.json"))
na = json.load(open(os.path.join(V, "not_applicable.json")))
checks = []
claimed = []
for pid in props:
    p = os.path.join(V, "harness", pid, "check.json")
    if not os.path.exists(p):
        continue
    c = json.load(open(p))
    if not c.get("registered", False):
        continue
    claimed.append(pid)
    chk = {
        "property_id": pid,
        "quick_cmd": "./check %s --tier quick" % pid,
        "evidence_file": "evidence/%s.json" % pid,
        "replay_cmd_template": "./check %s --replay {path}" % pid,
        "engine": "gosym",
        "level_claimed": {"category": "model_checking", "text": c["level_text"], "design_ref": c.get("design_ref", "DESIGN.md section 4 (%s)" % pid)},
        "level_note": c["level_note"],
        "technique": c.get("technique", "bounded symbolic execution of the real Go code (go/ssa) with z3 deciding every branch and assertion; counterexamples replayed natively"),
    }
    if any("thorough" in u["harnesses"] for u in c["units"]) or c.get("thorough", False):
        chk["thorough_cmd"] = "./check %s --tier thorough" % pid
    checks.append(chk)
m = {
    "version": 1,
    "setup_cmd": "./setup.sh",
    "hooks": {"guard": "verif",
              "enable": "build overlay (go/packages Overlay and go test -overlay) injecting //go:build verif harness files and the virtual package internal/verifrt; no tracked file in /repo is changed by the machinery",
              "baseline_off_cmd": base["cmd"], "source_commits": [], "add_only": True},
    "engines": [{"name": "gosym", "path": "engine", "serves_properties": claimed,
                 "kind_free_text": "bounded symbolic execution of go/ssa of the real consul code (fork of x/tools ssa/interp with symbolic scalars), path conditions and assertions decided by z3 (bit-vectors), counterexamples and witness models replayed natively against the real build"}],
    "checks": checks,
    "not_applicable": [{"property_id": p, "reason": na.get(p, "check not built yet in this session (planned, see DESIGN.md section 4)")} for p in props if p not in claimed],
    "notes": "All checks: ./check <ID> [--tier quick|thorough]; exit 0 held / 1 VIOLATION (natively reproduced) / 2 inconclusive. known_findings.txt lists recorded findings and fixed defects.",
}
json.dump(m, open(os.path.join(V, "MANIFEST.json"), "w"), indent=1)
print("claimed:", claimed)
