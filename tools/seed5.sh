#!/bin/sh
# seed5.sh <Cxx> [test run-filter] : pipeline (rounds 5, 6) for one sub-agent worktree ${WTBASE:-/tmp/wt5}/<Cxx>:
# confirm (verify_seed.sh), keep under seeded/<Cxx>-<name>, run the property's check against the worktree
# (VERIF_REPO, so several can run side by side without touching /repo), keep log under out/.
ID=$1; FILTER=$2; WT=${WTBASE:-/tmp/wt5}/$ID
NAME=$ID-$(python3 -c "import json;print(json.load(open('$WT/_seed/meta.json'))['name'])")
/verif/tools/verify_seed.sh $WT $ID "$FILTER" > /verif/out/seed5_verify_$ID.log 2>&1
tail -1 /verif/out/seed5_verify_$ID.log
grep -q "demo_with_change_exit=1 existing_fail=0 demo_without_exit=0" /verif/out/seed5_verify_$ID.log || { echo "NOT CONFIRMED $ID"; exit 1; }
/verif/tools/seed_save.sh $WT $NAME
cp /verif/evidence/$ID.json /verif/out/evidence_before_seed_$ID.json
cd /verif && VERIF_REPO=$WT ./check $ID > /verif/out/seed_$NAME.log 2>&1
RC=$?
cp /verif/out/evidence_before_seed_$ID.json /verif/evidence/$ID.json
grep -h "VIOLATION\|INCONCLUSIVE\|KNOWN-FINDING" /verif/out/seed_$NAME.log | head -5
echo "seed=$NAME property=$ID exit=$RC"
