//go:build verif

package acl

import "github.com/hashicorp/consul/internal/verifrt"

// C08: decisions of the policy authorizer equal the documented semantics
// (exact rule, else longest matching prefix rule, else default; across policies
// deny > write > list > read) and depend only on the token's own policies.

type vRule struct {
	policy int    // which policy of the token carries the rule
	prefix bool   // prefix rule or exact rule
	name   string // rule name
	access string // "deny","write","list","read"
	intent string // service rules only: "", "read","write","deny"
}

var vAccess = []string{PolicyDeny, PolicyWrite, PolicyRead, PolicyList}

func vName(tag string, minLen, maxLen int) string {
	n := minLen + verifrt.Choice(tag+".len", maxLen-minLen+1)
	return verifrt.StrN(tag, n)
}

func vRules(n int, withList, withIntent bool) []vRule {
	rs := make([]vRule, n)
	na := 3
	if withList {
		na = 4
	}
	for i := range rs {
		t := "rule" + string(rune('0'+i))
		pol := 0
		if i > 0 {
			// WLOG the first rule is in the first policy (both orders of the two policies are evaluated)
			pol = verifrt.Choice(t+".policy", 2)
		}
		rs[i] = vRule{policy: pol, prefix: verifrt.Bool(t + ".prefix"),
			name: vName(t+".name", 1, 2), access: vAccess[verifrt.Choice(t+".access", na)]}
		if withIntent {
			rs[i].intent = []string{"", PolicyRead, PolicyWrite, PolicyDeny}[verifrt.Choice(t+".intentions", 4)]
		}
		for j := 0; j < i; j++ {
			// one policy document cannot hold two rules of the same kind for the same name
			verifrt.Assume(!(rs[j].policy == rs[i].policy && rs[j].prefix == rs[i].prefix && rs[j].name == rs[i].name))
		}
	}
	return rs
}

func vRank(a string) int {
	switch a {
	case PolicyDeny:
		return 4
	case PolicyWrite:
		return 3
	case PolicyList:
		return 2
	case PolicyRead:
		return 1
	}
	return 0
}

// effective intention level of a service rule (documented: an explicit
// "intentions" value, else read when the service policy is read or write, else deny)
func vIntent(r vRule) string {
	if r.intent != "" {
		return r.intent
	}
	if r.access == PolicyRead || r.access == PolicyWrite {
		return PolicyRead
	}
	return PolicyDeny
}

// vGroupLevel combines the rules that several policies give for one name.
// Service level: the strongest. Intention level: the strongest explicit
// "intentions" value; when no policy sets one, it is derived from the combined
// service level (read for read/write, deny for deny). An unset intentions field
// is read as "no intention rule given by this policy" (DESIGN.md, observation O-5).
func vGroupLevel(group []vRule, intentions bool) string {
	best, explicit := "", ""
	for _, r := range group {
		if vRank(r.access) > vRank(best) {
			best = r.access
		}
		if r.intent != "" && vRank(r.intent) > vRank(explicit) {
			explicit = r.intent
		}
	}
	if !intentions {
		return best
	}
	if explicit != "" {
		return explicit
	}
	if best == PolicyRead || best == PolicyWrite {
		return PolicyRead
	}
	if best == "" {
		return ""
	}
	return PolicyDeny
}

// vSpecLevel: exact rules for the name win, else the rules of the longest matching prefix.
func vSpecLevel(rs []vRule, name string, intentions bool) string {
	var group []vRule
	for _, r := range rs {
		if !r.prefix && r.name == name {
			group = append(group, r)
		}
	}
	if len(group) > 0 {
		return vGroupLevel(group, intentions)
	}
	bestLen := -1
	for _, r := range rs {
		if r.prefix && verifrt.HasPrefix(name, r.name) && len(r.name) > bestLen {
			bestLen = len(r.name)
		}
	}
	for _, r := range rs {
		if r.prefix && verifrt.HasPrefix(name, r.name) && len(r.name) == bestLen {
			group = append(group, r)
		}
	}
	return vGroupLevel(group, intentions)
}

// vSpecAccess: the access level that applies to resource `name`, "" when no rule applies.
// level(r) selects the service or the intention level of a rule.
func vSpecAccess(rs []vRule, name string, level func(vRule) string) string {
	best := ""
	// exact rules for the name: strongest across policies
	for _, r := range rs {
		if !r.prefix && r.name == name && vRank(level(r)) > vRank(best) {
			best = level(r)
		}
	}
	if best != "" {
		return best
	}
	// longest matching prefix; strongest across policies for that prefix
	bestLen := -1
	for _, r := range rs {
		if r.prefix && verifrt.HasPrefix(name, r.name) {
			if len(r.name) > bestLen {
				bestLen, best = len(r.name), level(r)
			} else if len(r.name) == bestLen && vRank(level(r)) > vRank(best) {
				best = level(r)
			}
		}
	}
	return best
}

func vSpecDecision(access string, need AccessLevel, defaultAllow bool) EnforcementDecision {
	d := Default
	switch access {
	case PolicyDeny:
		d = Deny
	case PolicyWrite:
		d = Allow
	case PolicyList:
		if need == AccessList || need == AccessRead {
			d = Allow
		} else {
			d = Deny
		}
	case PolicyRead:
		if need == AccessRead {
			d = Allow
		} else {
			d = Deny
		}
	}
	if d == Default {
		if defaultAllow {
			return Allow
		}
		return Deny
	}
	return d
}

func vPolicies(kind string, rs []vRule) []*Policy {
	ps := []*Policy{{}, {}}
	for _, r := range rs {
		p := &ps[r.policy].PolicyRules
		switch kind {
		case "key":
			x := &KeyRule{Prefix: r.name, Policy: r.access}
			if r.prefix {
				p.KeyPrefixes = append(p.KeyPrefixes, x)
			} else {
				p.Keys = append(p.Keys, x)
			}
		case "node":
			x := &NodeRule{Name: r.name, Policy: r.access}
			if r.prefix {
				p.NodePrefixes = append(p.NodePrefixes, x)
			} else {
				p.Nodes = append(p.Nodes, x)
			}
		case "service":
			x := &ServiceRule{Name: r.name, Policy: r.access, Intentions: r.intent}
			if r.prefix {
				p.ServicePrefixes = append(p.ServicePrefixes, x)
			} else {
				p.Services = append(p.Services, x)
			}
		case "session":
			x := &SessionRule{Node: r.name, Policy: r.access}
			if r.prefix {
				p.SessionPrefixes = append(p.SessionPrefixes, x)
			} else {
				p.Sessions = append(p.Sessions, x)
			}
		case "agent":
			x := &AgentRule{Node: r.name, Policy: r.access}
			if r.prefix {
				p.AgentPrefixes = append(p.AgentPrefixes, x)
			} else {
				p.Agents = append(p.Agents, x)
			}
		case "event":
			x := &EventRule{Event: r.name, Policy: r.access}
			if r.prefix {
				p.EventPrefixes = append(p.EventPrefixes, x)
			} else {
				p.Events = append(p.Events, x)
			}
		case "query":
			x := &PreparedQueryRule{Prefix: r.name, Policy: r.access}
			if r.prefix {
				p.PreparedQueryPrefixes = append(p.PreparedQueryPrefixes, x)
			} else {
				p.PreparedQueries = append(p.PreparedQueries, x)
			}
		}
	}
	return ps
}

func vAuthz(ps []*Policy, defaultAllow bool) Authorizer {
	def := DenyAll()
	if defaultAllow {
		def = AllowAll()
	}
	a, err := NewPolicyAuthorizerWithDefaults(def, ps, nil)
	if err != nil {
		panic(err)
	}
	return a
}

// vAuthzBoth builds the token's policy authorizer once and chains it with both
// default policies (what NewPolicyAuthorizerWithDefaults does for each).
func vAuthzBoth(ps []*Policy) (allowDefault, denyDefault Authorizer) {
	a, err := newPolicyAuthorizer(ps, nil)
	if err != nil {
		panic(err)
	}
	return NewChainedAuthorizer([]Authorizer{a, AllowAll()}), NewChainedAuthorizer([]Authorizer{a, DenyAll()})
}

func vNRules() int {
	if verifrt.Thorough() {
		return 3
	}
	return 2
}

func vC08Kind(kind string) {
	n := vNRules()
	if kind == "key" {
		n = 2 // (three key rules with the list level: more than 1.5 million paths, did not finish in 45 minutes)
	}
	vC08KindRules(kind, vRules(n, kind == "key", kind == "service" && verifrt.Thorough()))
}

// Service rules with every "intentions" value, for rules that several policies
// give for the same name (where the two levels are combined).
func VerifC08_ServiceIntentions() {
	rs := vRules(2, false, true)
	verifrt.Assume(rs[0].name == rs[1].name && rs[0].prefix == rs[1].prefix && rs[1].policy == 1)
	vC08KindRules("service", rs)
}

func vC08KindRules(kind string, rs []vRule) {
	name := vName("resource", 1, 2)
	ps := vPolicies(kind, rs)
	aAllow, aDeny := vAuthzBoth(ps)
	// policy order must not matter
	sAllow, sDeny := vAuthzBoth([]*Policy{ps[1], ps[0]})
	acc := vSpecLevel(rs, name, false)
	iacc := ""
	if kind == "service" {
		verifrt.Assume(name != "*")
		iacc = vSpecLevel(rs, name, true)
	}
	var ctx AuthorizerContext
	for round := 0; round < 2; round++ {
		authz, swapped, defaultAllow := aAllow, sAllow, true
		if round == 1 {
			authz, swapped, defaultAllow = aDeny, sDeny, false
		}
		check := func(id string, got, gotSwapped EnforcementDecision, access string, need AccessLevel) {
			verifrt.Assert("C08."+kind+"."+id+".matches-rule-semantics", got == vSpecDecision(access, need, defaultAllow))
			verifrt.Assert("C08."+kind+"."+id+".independent-of-policy-order", got == gotSwapped)
		}
		switch kind {
		case "key":
			check("read", authz.KeyRead(name, &ctx), swapped.KeyRead(name, &ctx), acc, AccessRead)
			check("list", authz.KeyList(name, &ctx), swapped.KeyList(name, &ctx), acc, AccessList)
			check("write", authz.KeyWrite(name, &ctx), swapped.KeyWrite(name, &ctx), acc, AccessWrite)
		case "node":
			check("read", authz.NodeRead(name, &ctx), swapped.NodeRead(name, &ctx), acc, AccessRead)
			check("write", authz.NodeWrite(name, &ctx), swapped.NodeWrite(name, &ctx), acc, AccessWrite)
		case "service":
			check("read", authz.ServiceRead(name, &ctx), swapped.ServiceRead(name, &ctx), acc, AccessRead)
			check("write", authz.ServiceWrite(name, &ctx), swapped.ServiceWrite(name, &ctx), acc, AccessWrite)
			check("intention-read", authz.IntentionRead(name, &ctx), swapped.IntentionRead(name, &ctx), iacc, AccessRead)
			check("intention-write", authz.IntentionWrite(name, &ctx), swapped.IntentionWrite(name, &ctx), iacc, AccessWrite)
		case "session":
			check("read", authz.SessionRead(name, &ctx), swapped.SessionRead(name, &ctx), acc, AccessRead)
			check("write", authz.SessionWrite(name, &ctx), swapped.SessionWrite(name, &ctx), acc, AccessWrite)
		case "agent":
			check("read", authz.AgentRead(name, &ctx), swapped.AgentRead(name, &ctx), acc, AccessRead)
			check("write", authz.AgentWrite(name, &ctx), swapped.AgentWrite(name, &ctx), acc, AccessWrite)
		case "event":
			check("read", authz.EventRead(name, &ctx), swapped.EventRead(name, &ctx), acc, AccessRead)
			check("write", authz.EventWrite(name, &ctx), swapped.EventWrite(name, &ctx), acc, AccessWrite)
		case "query":
			check("read", authz.PreparedQueryRead(name, &ctx), swapped.PreparedQueryRead(name, &ctx), acc, AccessRead)
			check("write", authz.PreparedQueryWrite(name, &ctx), swapped.PreparedQueryWrite(name, &ctx), acc, AccessWrite)
		}
	}
	verifrt.Reached("end")
}

func VerifC08_Key()     { vC08Kind("key") }
func VerifC08_Node()    { vC08Kind("node") }
func VerifC08_Service() { vC08Kind("service") }
func VerifC08_Session() { vC08Kind("session") }
func VerifC08_Agent()   { vC08Kind("agent") }
func VerifC08_Event()   { vC08Kind("event") }
func VerifC08_Query()   { vC08Kind("query") }

// Purity with respect to sharing: parsed *Policy objects are shared between
// tokens by the parsed-policy cache. Resolving a token that holds [P1, P2] must
// not change what a token holding only P1 is allowed to do.
func VerifC08_SharedPolicyPurity() {
	name := vName("name", 1, 2)
	a1 := vAccess[verifrt.Choice("p1.access", 3)]
	a2 := vAccess[verifrt.Choice("p2.access", 3)]
	i1 := []string{"", PolicyRead, PolicyWrite, PolicyDeny}[verifrt.Choice("p1.intentions", 4)]
	i2 := []string{"", PolicyRead, PolicyWrite, PolicyDeny}[verifrt.Choice("p2.intentions", 4)]
	prefix := verifrt.Bool("prefix")
	mk := func(a, i string) *Policy {
		p := &Policy{}
		r := &ServiceRule{Name: name, Policy: a, Intentions: i}
		if prefix {
			p.ServicePrefixes = []*ServiceRule{r}
		} else {
			p.Services = []*ServiceRule{r}
		}
		return p
	}
	p1, p2 := mk(a1, i1), mk(a2, i2)
	fresh := mk(a1, i1) // what P1 says, never shared
	defaultAllow := verifrt.Bool("defaultAllow")
	var ctx AuthorizerContext
	_ = vAuthz([]*Policy{p1, p2}, defaultAllow) // some other token is resolved first
	got := vAuthz([]*Policy{p1}, defaultAllow)
	want := vAuthz([]*Policy{fresh}, defaultAllow)
	res := vName("resource", 1, 2)
	verifrt.Assume(res != "*")
	verifrt.Assert("C08.sharing.service-read-unaffected-by-other-tokens", got.ServiceRead(res, &ctx) == want.ServiceRead(res, &ctx))
	verifrt.Assert("C08.sharing.service-write-unaffected-by-other-tokens", got.ServiceWrite(res, &ctx) == want.ServiceWrite(res, &ctx))
	verifrt.Assert("C08.sharing.intention-read-unaffected-by-other-tokens", got.IntentionRead(res, &ctx) == want.IntentionRead(res, &ctx))
	verifrt.Assert("C08.sharing.intention-write-unaffected-by-other-tokens", got.IntentionWrite(res, &ctx) == want.IntentionWrite(res, &ctx))
	verifrt.Reached("end")
}

// enforce() and takesPrecedenceOver() against their documented tables.
func VerifC08_Tables() {
	a := vAccess[verifrt.Choice("a", 4)]
	b := vAccess[verifrt.Choice("b", 4)]
	verifrt.Assert("C08.precedence.table", takesPrecedenceOver(a, b) == (vRank(a) >= vRank(b)) || a == b)
	verifrt.Assert("C08.precedence.strict", !(vRank(a) > vRank(b)) || (takesPrecedenceOver(a, b) && !takesPrecedenceOver(b, a)))
	al, err := AccessLevelFromString(a)
	verifrt.Assert("C08.access.parse", err == nil)
	for _, need := range []AccessLevel{AccessRead, AccessList, AccessWrite} {
		verifrt.Assert("C08.enforce.table", enforce(al, need) == vSpecDecision(a, need, false) || enforce(al, need) == vSpecDecision(a, need, true))
	}
	verifrt.Reached("end")
}

// Singleton resources (acl, keyring, operator, mesh, peering): across the token's policies deny overrides
// write overrides read; with no rule the default policy decides; the order of the policies is irrelevant.
func VerifC08_Singletons() {
	levels := []string{"", PolicyRead, PolicyWrite, PolicyDeny}
	kind := verifrt.Choice("kind", 5)
	l0 := levels[verifrt.Choice("p0.level", 4)]
	l1 := levels[verifrt.Choice("p1.level", 4)]
	mk := func(l string) *Policy {
		p := &Policy{}
		switch kind {
		case 0:
			p.ACL = l
		case 1:
			p.Keyring = l
		case 2:
			p.Operator = l
		case 3:
			p.Mesh = l
		case 4:
			p.Peering = l
		}
		return p
	}
	best := l0
	if vRank(l1) > vRank(best) {
		best = l1
	}
	for _, order := range [][]*Policy{{mk(l0), mk(l1)}, {mk(l1), mk(l0)}} {
		allowDef, denyDef := vAuthzBoth(order)
		for di, a := range []Authorizer{allowDef, denyDef} {
			def := Deny
			if di == 0 && kind != 0 {
				// (ACL management is never granted by the default policy, only by an explicit rule or a management token)
				def = Allow
			}
			var rd, wr EnforcementDecision
			switch kind {
			case 0:
				rd, wr = a.ACLRead(nil), a.ACLWrite(nil)
			case 1:
				rd, wr = a.KeyringRead(nil), a.KeyringWrite(nil)
			case 2:
				rd, wr = a.OperatorRead(nil), a.OperatorWrite(nil)
			case 3:
				rd, wr = a.MeshRead(nil), a.MeshWrite(nil)
			case 4:
				rd, wr = a.PeeringRead(nil), a.PeeringWrite(nil)
			}
			wantRd, wantWr := def, def
			switch best {
			case PolicyRead:
				wantRd, wantWr = Allow, Deny
			case PolicyWrite:
				wantRd, wantWr = Allow, Allow
			case PolicyDeny:
				wantRd, wantWr = Deny, Deny
			}
			verifrt.Assert("C08.singleton.read-matches-rule-semantics", rd == wantRd)
			verifrt.Assert("C08.singleton.write-matches-rule-semantics", wr == wantWr)
		}
	}
	verifrt.Reached("end")
}

// Merging a token's policies keeps, for every (kind, name) that any policy gives a prefix rule for, one rule
// with the strongest level - whatever else the same policy lists before or after it. (Three rules: one policy
// with one rule, one with two; names from a three-letter alphabet including the empty prefix.)
func VerifC08_MergeKeepsEveryRule() {
	names := []string{"", "a", "b"}
	levels := []string{PolicyRead, PolicyWrite, PolicyDeny}
	kind := verifrt.Choice("kind", 5)
	type rule struct{ name, level string }
	mk := func(t string) rule {
		return rule{names[verifrt.Choice(t+".name", 3)], levels[verifrt.Choice(t+".level", 3)]}
	}
	r0, r1, r2 := mk("p0.r0"), mk("p1.r0"), mk("p1.r1")
	verifrt.Assume(r1.name != r2.name) // one document cannot hold two prefix rules for the same name
	add := func(p *Policy, r rule) {
		switch kind {
		case 0:
			p.SessionPrefixes = append(p.SessionPrefixes, &SessionRule{Node: r.name, Policy: r.level})
		case 1:
			p.NodePrefixes = append(p.NodePrefixes, &NodeRule{Name: r.name, Policy: r.level})
		case 2:
			p.AgentPrefixes = append(p.AgentPrefixes, &AgentRule{Node: r.name, Policy: r.level})
		case 3:
			p.EventPrefixes = append(p.EventPrefixes, &EventRule{Event: r.name, Policy: r.level})
		case 4:
			p.PreparedQueryPrefixes = append(p.PreparedQueryPrefixes, &PreparedQueryRule{Prefix: r.name, Policy: r.level})
		}
	}
	p0, p1 := &Policy{}, &Policy{}
	add(p0, r0)
	add(p1, r1)
	add(p1, r2)
	order := []*Policy{p0, p1}
	if verifrt.Bool("p1-first") {
		order = []*Policy{p1, p0}
	}
	m := MergePolicies(order)
	got := map[string]string{}
	count := 0
	switch kind {
	case 0:
		for _, x := range m.SessionPrefixes {
			got[x.Node] = x.Policy
			count++
		}
	case 1:
		for _, x := range m.NodePrefixes {
			got[x.Name] = x.Policy
			count++
		}
	case 2:
		for _, x := range m.AgentPrefixes {
			got[x.Node] = x.Policy
			count++
		}
	case 3:
		for _, x := range m.EventPrefixes {
			got[x.Event] = x.Policy
			count++
		}
	case 4:
		for _, x := range m.PreparedQueryPrefixes {
			got[x.Prefix] = x.Policy
			count++
		}
	}
	want := map[string]string{}
	for _, r := range []rule{r0, r1, r2} {
		if vRank(r.level) > vRank(want[r.name]) {
			want[r.name] = r.level
		}
	}
	verifrt.Assert("C08.merge.one-rule-per-name", count == len(want))
	for n, l := range want {
		verifrt.Assert("C08.merge.strongest-level-kept-for-every-name", got[n] == l)
	}
	verifrt.Reached("end")
}
