//go:build verif

package consul

import (
	"github.com/hashicorp/consul/acl"
	"github.com/hashicorp/consul/agent/structs"
	"github.com/hashicorp/consul/internal/verifrt"
)

// C08 (resolver): the authorizer the real ACLResolver builds for a token (policies resolved
// through the server backend, synthetic policies of node and service identities, roles, the
// datacenter scope filter, the real HCL policy parser and the policy merge) grants exactly what
// the token's own identities say for this datacenter: node:write on N iff some node identity
// (of the token or of one of its roles) names N for dc1; service:write on S iff some service
// identity names S for every datacenter or for dc1 - in whatever order the identities are listed.

func VerifC08_ResolverIdentities_Setup() any {
	s, be := vPartialServer(true)
	return []any{s, be}
}

func VerifC08_ResolverIdentities(st any) {
	s := st.([]any)[0].(*Server)
	be := st.([]any)[1].(*vSrvBackend)
	names := []string{"a", "b"}
	dcs := []string{"dc1", "dc2"}
	tok := &structs.ACLToken{AccessorID: "a0000000-0000-0000-0000-0000000000c1", SecretID: "a0000000-0000-0000-0000-0000000000c2"}
	type nid struct{ name, dc string }
	type sid struct {
		name string
		dcs  []string
	}
	var nids []nid
	var sids []sid
	nNode := verifrt.Choice("node-identities", 3)
	for i := 0; i < nNode; i++ {
		x := nid{names[verifrt.Choice("ni.name", 2)], dcs[verifrt.Choice("ni.dc", 2)]}
		nids = append(nids, x)
		tok.NodeIdentities = append(tok.NodeIdentities, &structs.ACLNodeIdentity{NodeName: x.name, Datacenter: x.dc})
	}
	nSvc := verifrt.Choice("service-identities", 3)
	for i := 0; i < nSvc; i++ {
		x := sid{name: names[verifrt.Choice("si.name", 2)]}
		switch verifrt.Choice("si.dcs", 3) {
		case 1:
			x.dcs = []string{"dc1"}
		case 2:
			x.dcs = []string{"dc2"}
		}
		sids = append(sids, x)
		tok.ServiceIdentities = append(tok.ServiceIdentities, &structs.ACLServiceIdentity{ServiceName: x.name, Datacenters: x.dcs})
	}
	// optionally one more node identity arrives through a role
	be.roles = map[string]*structs.ACLRole{}
	if verifrt.Bool("role") {
		x := nid{names[verifrt.Choice("role.ni.name", 2)], dcs[verifrt.Choice("role.ni.dc", 2)]}
		nids = append(nids, x)
		be.roles["a0000000-0000-0000-0000-0000000000b1"] = &structs.ACLRole{ID: "a0000000-0000-0000-0000-0000000000b1", Name: "r",
			NodeIdentities: []*structs.ACLNodeIdentity{{NodeName: x.name, Datacenter: x.dc}}}
		tok.Roles = []structs.ACLTokenRoleLink{{ID: "a0000000-0000-0000-0000-0000000000b1"}}
	}
	be.tokens = map[string]*structs.ACLToken{tok.SecretID: tok}
	res, err := s.ACLResolver.ResolveToken(tok.SecretID)
	verifrt.Assert("C08.resolver.token-resolves", err == nil)
	if err != nil {
		return
	}
	for _, q := range names {
		wantNode, wantSvc := false, false
		for _, x := range nids {
			if x.name == q && x.dc == "dc1" {
				wantNode = true
			}
		}
		for _, x := range sids {
			if x.name == q && (len(x.dcs) == 0 || x.dcs[0] == "dc1") {
				wantSvc = true
			}
		}
		verifrt.Assert("C08.resolver.node-write-iff-a-node-identity-names-it-for-this-datacenter",
			(res.NodeWrite(q, nil) == acl.Allow) == wantNode)
		verifrt.Assert("C08.resolver.service-write-iff-a-service-identity-names-it-for-this-datacenter",
			(res.ServiceWrite(q, nil) == acl.Allow) == wantSvc)
	}
	verifrt.Assert("C08.resolver.nothing-else-granted", res.NodeWrite("zz", nil) != acl.Allow && res.KeyRead("k", nil) != acl.Allow && res.ACLRead(nil) != acl.Allow)
	verifrt.Reached("end")
}
