//go:build verif

package structs

import (
	"github.com/hashicorp/consul/internal/verifrt"
)

// C08, identities: combining the service identities of a token and of its
// roles (ACLServiceIdentities.Deduplicate, as the resolver does) grants a
// service in a datacenter iff one of the identities does (an identity without
// datacenters applies everywhere), and leaves the identities it was given -
// which belong to roles shared with other tokens - unchanged.

func vCovers(id *ACLServiceIdentity, dc string) bool {
	if len(id.Datacenters) == 0 {
		return true
	}
	for _, d := range id.Datacenters {
		if d == dc {
			return true
		}
	}
	return false
}

func VerifC08_ServiceIdentities() {
	n := 1 + verifrt.Choice("n", 3)
	var ids ACLServiceIdentities
	type snap struct {
		name string
		dcs  []string
	}
	var before []snap
	for i := 0; i < n; i++ {
		t := "id" + string(rune('0'+i))
		id := &ACLServiceIdentity{ServiceName: []string{"web", "api"}[verifrt.Choice(t+".name", 2)]}
		switch verifrt.Choice(t+".dcs", 4) {
		case 1:
			id.Datacenters = []string{"dc1"}
		case 2:
			id.Datacenters = []string{"dc2"}
		case 3:
			id.Datacenters = []string{"dc2", "dc1"}
		}
		ids = append(ids, id)
		before = append(before, snap{id.ServiceName, append([]string(nil), id.Datacenters...)})
	}
	out := ids.Deduplicate()
	// the inputs are untouched
	for i, id := range ids {
		same := id.ServiceName == before[i].name && len(id.Datacenters) == len(before[i].dcs)
		if same {
			for k := range before[i].dcs {
				if id.Datacenters[k] != before[i].dcs[k] {
					same = false
				}
			}
		}
		verifrt.Assert("C08.identities.combining-leaves-the-given-identities-unchanged", same)
	}
	// one result per name, granting exactly the union
	for _, name := range []string{"web", "api"} {
		count := 0
		for _, o := range out {
			if o.ServiceName == name {
				count++
			}
		}
		named := false
		for _, id := range ids {
			if id.ServiceName == name {
				named = true
			}
		}
		verifrt.Assert("C08.identities.one-result-per-service", (count == 1) == named && count <= 1)
		for _, dc := range []string{"dc1", "dc2", "dc3"} {
			want := false
			for _, id := range ids {
				if id.ServiceName == name && vCovers(id, dc) {
					want = true
				}
			}
			got := false
			for _, o := range out {
				if o.ServiceName == name && vCovers(o, dc) {
					got = true
				}
			}
			verifrt.Assert("C08.identities.grants-exactly-the-union", got == want)
		}
	}
	verifrt.Reached("end")
}
