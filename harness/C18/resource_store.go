//go:build verif

package inmem

import (
	"context"
	"errors"

	"github.com/hashicorp/consul/internal/storage"
	"github.com/hashicorp/consul/internal/verifrt"
	"github.com/hashicorp/consul/proto-public/pbresource"
)

// C18 (lock-serialised semantics): version CAS, stable UIDs, deleted-and-
// recreated resources are distinct lifetimes, watches list completely.

var vType = &pbresource.Type{Group: "g", GroupVersion: "v1", Kind: "K"}

func vTenancy(ns string) *pbresource.Tenancy { return &pbresource.Tenancy{Partition: "default", Namespace: ns} }

func vRes(name, uid, version string) *pbresource.Resource {
	return &pbresource.Resource{Id: &pbresource.ID{Type: vType, Tenancy: vTenancy("default"), Name: name, Uid: uid}, Version: version}
}

func vTok(tag string) string { return verifrt.StrN(tag, 1) }

func mustStore() *Store {
	s, err := NewStore()
	if err != nil {
		panic(err)
	}
	return s
}

// one WriteCAS / DeleteCAS from an arbitrary stored state
func VerifC18_CASStep() {
	s := mustStore()
	present := verifrt.Bool("present")
	uid0, v0 := vTok("stored.uid"), vTok("stored.version")
	if present {
		if err := s.WriteCAS(vRes("r", uid0, v0), ""); err != nil {
			panic(err)
		}
	}
	// the deleter may present no Uid at all: any Uid other than the stored one is another lifetime
	uid, vsn := verifrt.Str("op.uid", 1), verifrt.Str("op.vsn", 1)
	newV := vTok("op.newversion")
	isDelete := verifrt.Bool("delete")
	if !isDelete {
		verifrt.Assume(uid != "")
	}
	if isDelete {
		err := s.DeleteCAS(vRes("r", uid, "").Id, vsn)
		got, rerr := s.Read(vRes("r", "", "").Id)
		switch {
		case !present:
			verifrt.Assert("C18.delete.absent-is-noop-success", err == nil && errors.Is(rerr, storage.ErrNotFound))
		case uid != uid0:
			verifrt.Assert("C18.delete.stale-uid-cannot-touch-other-lifetime", err == nil && rerr == nil && got.Version == v0 && got.Id.Uid == uid0)
		case vsn != v0:
			verifrt.Assert("C18.delete.wrong-version-is-cas-failure", errors.Is(err, storage.ErrCASFailure) && rerr == nil && got.Version == v0)
		default:
			verifrt.Assert("C18.delete.matched-deletes", err == nil && errors.Is(rerr, storage.ErrNotFound))
			verifrt.Reached("deleted")
		}
		verifrt.Reached("delete-step")
		return
	}
	err := s.WriteCAS(vRes("r", uid, newV), vsn)
	got, rerr := s.Read(vRes("r", "", "").Id)
	switch {
	case !present && vsn == "":
		verifrt.Assert("C18.write.create-succeeds", err == nil && rerr == nil && got.Version == newV && got.Id.Uid == uid)
		verifrt.Reached("created")
	case !present:
		verifrt.Assert("C18.write.create-with-version-is-cas-failure", errors.Is(err, storage.ErrCASFailure) && errors.Is(rerr, storage.ErrNotFound))
	case uid != uid0:
		verifrt.Assert("C18.write.uid-is-immutable", errors.Is(err, storage.ErrWrongUid) && rerr == nil && got.Version == v0 && got.Id.Uid == uid0)
	case vsn != v0:
		verifrt.Assert("C18.write.stale-version-is-cas-failure", errors.Is(err, storage.ErrCASFailure) && rerr == nil && got.Version == v0)
	default:
		verifrt.Assert("C18.write.matched-version-succeeds", err == nil && rerr == nil && got.Version == newV && got.Id.Uid == uid0)
		verifrt.Reached("updated")
	}
	verifrt.Reached("write-step")
}

// two writers present the same version, in either order: exactly one wins
func VerifC18_TwoWriters() {
	s := mustStore()
	uid, v0 := vTok("uid"), vTok("v0")
	if err := s.WriteCAS(vRes("r", uid, v0), ""); err != nil {
		panic(err)
	}
	va, vb := vTok("va"), vTok("vb")
	verifrt.Assume(va != v0 && vb != v0)
	first := verifrt.Choice("first", 2)
	var ea, eb error
	if first == 0 {
		ea = s.WriteCAS(vRes("r", uid, va), v0)
		eb = s.WriteCAS(vRes("r", uid, vb), v0)
	} else {
		eb = s.WriteCAS(vRes("r", uid, vb), v0)
		ea = s.WriteCAS(vRes("r", uid, va), v0)
	}
	verifrt.Assert("C18.two-writers.exactly-one-succeeds", (ea == nil) != (eb == nil))
	got, _ := s.Read(vRes("r", "", "").Id)
	if ea == nil {
		verifrt.Assert("C18.two-writers.winner-is-stored", got.Version == va)
	} else {
		verifrt.Assert("C18.two-writers.winner-is-stored", got.Version == vb)
	}
	// delete, re-create: a distinct lifetime that stale writers and deleters cannot touch
	cur := got.Version
	if err := s.DeleteCAS(vRes("r", uid, "").Id, cur); err != nil {
		panic(err)
	}
	uid2, v2 := vTok("uid2"), vTok("v2")
	verifrt.Assume(uid2 != uid)
	if err := s.WriteCAS(vRes("r", uid2, v2), ""); err != nil {
		panic(err)
	}
	staleVsn := verifrt.Str("stale.vsn", 1)
	ew := s.WriteCAS(vRes("r", uid, vTok("stale.new")), staleVsn)
	ed := s.DeleteCAS(vRes("r", uid, "").Id, staleVsn)
	ed0 := s.DeleteCAS(vRes("r", "", "").Id, staleVsn) // a deleter that names no lifetime at all
	got2, rerr := s.Read(vRes("r", "", "").Id)
	verifrt.Assert("C18.recreated.stale-writer-refused", ew != nil)
	verifrt.Assert("C18.recreated.stale-deleter-is-noop", ed == nil && ed0 == nil)
	verifrt.Assert("C18.recreated.new-lifetime-untouched", rerr == nil && got2.Id.Uid == uid2 && got2.Version == v2)
	verifrt.Reached("end")
}

// a watcher receives a complete initial listing, then events in commit order
func VerifC18_WatchListing() {
	s := mustStore()
	nsA, nsB := "default", "other"
	// resources in two namespaces, created before any watch
	na := verifrt.Choice("n.default", 3)
	nb := verifrt.Choice("n.other", 3)
	mk := func(ns string, i int) *pbresource.Resource {
		r := vRes(ns+string(rune('0'+i)), "u", "1")
		r.Id.Tenancy = vTenancy(ns)
		return r
	}
	for i := 0; i < na; i++ {
		if err := s.WriteCAS(mk(nsA, i), ""); err != nil {
			panic(err)
		}
	}
	for i := 0; i < nb; i++ {
		if err := s.WriteCAS(mk(nsB, i), ""); err != nil {
			panic(err)
		}
	}
	for s.pub.VerifDrainOne() {
	}
	ut := storage.UnversionedTypeFrom(vType)
	order := verifrt.Choice("watch.order", 2)
	var wa, wb *Watch
	var err error
	if order == 0 {
		wa, err = s.WatchList(ut, vTenancy(nsA), "")
		wb, _ = s.WatchList(ut, vTenancy(nsB), "")
	} else {
		wb, err = s.WatchList(ut, vTenancy(nsB), "")
		wa, _ = s.WatchList(ut, vTenancy(nsA), "")
	}
	if err != nil {
		panic(err)
	}
	count := func(w *Watch) int {
		n := 0
		for k := 0; k < 8; k++ {
			ev, err := w.Next(context.Background())
			if err != nil {
				panic(err)
			}
			if ev.GetEndOfSnapshot() != nil {
				return n
			}
			n++
		}
		return -1
	}
	verifrt.Assert("C18.watch.complete-initial-listing", count(wa) == na)
	verifrt.Assert("C18.watch.complete-initial-listing-second-watcher", count(wb) == nb)
	// then one more write per namespace, delivered in commit order to the right watcher
	if err := s.WriteCAS(mk(nsA, 7), ""); err != nil {
		panic(err)
	}
	if err := s.WriteCAS(mk(nsA, 8), ""); err != nil {
		panic(err)
	}
	for s.pub.VerifDrainOne() {
	}
	e1, err1 := wa.Next(context.Background())
	e2, err2 := wa.Next(context.Background())
	verifrt.Assert("C18.watch.events-in-commit-order", err1 == nil && err2 == nil &&
		e1.GetUpsert().GetResource().GetId().GetName() == nsA+"7" && e2.GetUpsert().GetResource().GetId().GetName() == nsA+"8")
	verifrt.Reached("end")
}

// Watchers with different (partly wildcarded) tenancy scopes on the same type, opened in any order while the
// snapshot cache is warm: each one's initial listing is exactly the resources inside its own scope.
func VerifC18_WatchScopes() {
	s := mustStore()
	type ten struct{ part, ns string }
	placed := []ten{{"default", "default"}, {"default", "other"}, {"billing", "payments"}}
	present := make([]bool, len(placed))
	for i, t := range placed {
		if present[i] = verifrt.Bool("resource" + string(rune('0'+i))); present[i] {
			r := vRes("r"+string(rune('0'+i)), "u", "1")
			r.Id.Tenancy = &pbresource.Tenancy{Partition: t.part, Namespace: t.ns}
			if err := s.WriteCAS(r, ""); err != nil {
				panic(err)
			}
		}
	}
	for s.pub.VerifDrainOne() {
	}
	scopes := []ten{{"default", "default"}, {"default", storage.Wildcard}, {storage.Wildcard, storage.Wildcard}, {"billing", "payments"}}
	ut := storage.UnversionedTypeFrom(vType)
	var ws []*Watch
	var chosen []ten
	for k := 0; k < 2; k++ {
		sc := scopes[verifrt.Choice("watcher"+string(rune('0'+k))+".scope", len(scopes))]
		w, err := s.WatchList(ut, &pbresource.Tenancy{Partition: sc.part, Namespace: sc.ns}, "")
		if err != nil {
			panic(err)
		}
		ws, chosen = append(ws, w), append(chosen, sc)
	}
	for k, w := range ws {
		want := 0
		for i, t := range placed {
			if present[i] && (chosen[k].part == storage.Wildcard || chosen[k].part == t.part) && (chosen[k].ns == storage.Wildcard || chosen[k].ns == t.ns) {
				want++
			}
		}
		got := 0
		for n := 0; n < 8; n++ {
			ev, err := w.Next(context.Background())
			if err != nil {
				panic(err)
			}
			if ev.GetEndOfSnapshot() != nil {
				break
			}
			got++
		}
		verifrt.Assert("C18.watch.initial-listing-is-exactly-the-watchers-scope", got == want)
	}
	verifrt.Reached("end")
}

// Read with any Uid and any group version of the type: a Uid of another lifetime never sees the
// stored resource (not even through the group-version mismatch error, whose Stored field the
// resource service treats as "the resource to update"); a matching or empty Uid reads it, under
// the stored group version directly and under another one through the mismatch error.
func VerifC18_Read() {
	s := mustStore()
	present := verifrt.Bool("present")
	uid0, v0 := vTok("stored.uid"), vTok("stored.version")
	if present {
		if err := s.WriteCAS(vRes("r", uid0, v0), ""); err != nil {
			panic(err)
		}
	}
	uid := verifrt.Str("read.uid", 1)
	gv := "v1"
	if verifrt.Bool("read.other-group-version") {
		gv = "v2"
	}
	id := &pbresource.ID{Type: &pbresource.Type{Group: "g", GroupVersion: gv, Kind: "K"}, Tenancy: vTenancy("default"), Name: "r", Uid: uid}
	got, err := s.Read(id)
	var mismatch storage.GroupVersionMismatchError
	switch {
	case !present:
		verifrt.Assert("C18.read.absent-is-not-found", got == nil && errors.Is(err, storage.ErrNotFound))
		verifrt.Reached("absent")
	case uid != "" && uid != uid0:
		verifrt.Assert("C18.read.stale-uid-sees-nothing-of-another-lifetime", got == nil && errors.Is(err, storage.ErrNotFound) && !errors.As(err, &mismatch))
		verifrt.Reached("stale")
	case gv != "v1":
		ok := got == nil && errors.As(err, &mismatch)
		if ok {
			ok = mismatch.Stored != nil && mismatch.Stored.Id.Uid == uid0 && mismatch.Stored.Version == v0
		}
		verifrt.Assert("C18.read.other-group-version-reports-the-stored-resource", ok)
		verifrt.Reached("mismatch")
	default:
		verifrt.Assert("C18.read.returns-the-stored-resource", err == nil && got != nil && got.Id.Uid == uid0 && got.Version == v0)
		verifrt.Reached("read")
	}
}
