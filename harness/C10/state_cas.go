//go:build verif

package state

import (
	"github.com/hashicorp/consul/agent/structs"
	"github.com/hashicorp/consul/internal/verifrt"
)

// C10: config entries, CA configuration and autopilot configuration — applied
// iff the supplied index matches, reported iff applied, nothing changes on failure.

func VerifC10_ConfigEntryCAS_Setup() any { return vNewStore() }

func vMesh(mark uint8) *structs.MeshConfigEntry {
	return &structs.MeshConfigEntry{Meta: map[string]string{"mark": string([]byte{'a' + mark%4})}}
}

func VerifC10_ConfigEntryCAS(st any) {
	s := st.(*Store)
	present := verifrt.Bool("present")
	var preIdx structs.RaftIndex
	tblIdx := uint64(0)
	if present {
		preIdx = vRaftIndex("pre")
		tblIdx = verifrt.U64("index.config-entries")
		verifrt.Assume(preIdx.ModifyIndex <= tblIdx)
		e := vMesh(0)
		e.RaftIndex = preIdx
		vRawInsert(s, tableConfigEntries, e)
		vSetIndex(s, tableConfigEntries, tblIdx)
	}
	idx := verifrt.U64("idx")
	verifrt.Assume(idx > tblIdx)
	cidx := verifrt.U64("cidx")
	del := verifrt.Bool("delete")

	var ok bool
	var err error
	if del {
		ok, err = s.DeleteConfigEntryCAS(idx, cidx, vMesh(1))
	} else {
		ok, err = s.EnsureConfigEntryCAS(idx, cidx, vMesh(1))
	}
	verifrt.Assert("C10.configentry.no-error", err == nil)

	rows := vDump(s, tableConfigEntries)
	afterIdx := vIndex(s, tableConfigEntries)
	var matched bool
	if del {
		matched = present && cidx == preIdx.ModifyIndex
	} else {
		matched = (cidx == 0 && !present) || (cidx != 0 && present && cidx == preIdx.ModifyIndex)
	}
	if matched {
		verifrt.Assert("C10.configentry.reports-success-when-matched", ok)
		if del {
			verifrt.Assert("C10.configentry.delete-applied", len(rows) == 0 && afterIdx == idx)
		} else {
			verifrt.Assert("C10.configentry.write-applied", len(rows) == 1 && afterIdx == idx &&
				rows[0].(*structs.MeshConfigEntry).ModifyIndex == idx && rows[0].(*structs.MeshConfigEntry).Meta["mark"] == "b")
			if present {
				verifrt.Assert("C10.configentry.create-index-kept", rows[0].(*structs.MeshConfigEntry).CreateIndex == preIdx.CreateIndex)
			}
		}
		verifrt.Reached("applied")
	} else {
		verifrt.Assert("C10.configentry.reports-failure-when-not-matched", !ok)
		unchanged := afterIdx == tblIdx
		if present {
			unchanged = unchanged && len(rows) == 1 && rows[0].(*structs.MeshConfigEntry).ModifyIndex == preIdx.ModifyIndex &&
				rows[0].(*structs.MeshConfigEntry).Meta["mark"] == "a"
		} else {
			unchanged = unchanged && len(rows) == 0
		}
		verifrt.Assert("C10.configentry.unchanged-when-not-matched", unchanged)
		verifrt.Reached("rejected")
	}
}

func VerifC10_CAConfigCAS_Setup() any { return vNewStore() }

func VerifC10_CAConfigCAS(st any) {
	s := st.(*Store)
	present := verifrt.Bool("present")
	var preIdx structs.RaftIndex
	if present {
		preIdx = vRaftIndex("pre")
		vRawInsert(s, tableConnectCAConfig, &structs.CAConfiguration{Provider: "consul", ClusterID: "c1", RaftIndex: preIdx})
	}
	idx := verifrt.U64("idx")
	verifrt.Assume(idx > preIdx.ModifyIndex)
	cidx := verifrt.U64("cidx")
	ok, err := s.CACheckAndSetConfig(idx, cidx, &structs.CAConfiguration{Provider: "vault", ClusterID: "c1"})
	_, cfg, gerr := s.CAConfig(nil)
	verifrt.Assert("C10.caconfig.readable", gerr == nil)
	matched := (present && cidx == preIdx.ModifyIndex) || (!present && cidx == 0)
	if matched {
		verifrt.Assert("C10.caconfig.reports-success-when-matched", ok && err == nil)
		verifrt.Assert("C10.caconfig.applied", cfg != nil && cfg.Provider == "vault" && cfg.ModifyIndex == idx)
		verifrt.Reached("applied")
	} else {
		// this verb reports a mismatch through an error
		verifrt.Assert("C10.caconfig.reports-failure-when-not-matched", !ok && err != nil)
		if present {
			verifrt.Assert("C10.caconfig.unchanged-when-not-matched", cfg != nil && cfg.Provider == "consul" && cfg.ModifyIndex == preIdx.ModifyIndex)
		} else {
			verifrt.Assert("C10.caconfig.unchanged-when-not-matched", cfg == nil)
		}
		verifrt.Reached("rejected")
	}
}

func VerifC10_AutopilotCAS_Setup() any { return vNewStore() }

func VerifC10_AutopilotCAS(st any) {
	s := st.(*Store)
	present := verifrt.Bool("present")
	var preIdx structs.RaftIndex
	if present {
		preIdx = vRaftIndex("pre")
		vRawInsert(s, "autopilot-config", &structs.AutopilotConfig{MaxTrailingLogs: 1, CreateIndex: preIdx.CreateIndex, ModifyIndex: preIdx.ModifyIndex})
	}
	idx := verifrt.U64("idx")
	verifrt.Assume(idx > preIdx.ModifyIndex)
	cidx := verifrt.U64("cidx")
	ok, err := s.AutopilotCASConfig(idx, cidx, &structs.AutopilotConfig{MaxTrailingLogs: 2})
	_, cfg, gerr := s.AutopilotConfig()
	verifrt.Assert("C10.autopilot.no-error", err == nil && gerr == nil)
	// the autopilot configuration is created at bootstrap; CAS never creates it
	matched := present && cidx == preIdx.ModifyIndex
	if matched {
		verifrt.Assert("C10.autopilot.reports-success-when-matched", ok)
		verifrt.Assert("C10.autopilot.applied", cfg != nil && cfg.MaxTrailingLogs == 2 && cfg.ModifyIndex == idx && cfg.CreateIndex == preIdx.CreateIndex)
		verifrt.Reached("applied")
	} else {
		verifrt.Assert("C10.autopilot.reports-failure-when-not-matched", !ok)
		if present {
			verifrt.Assert("C10.autopilot.unchanged-when-not-matched", cfg != nil && cfg.MaxTrailingLogs == 1 && cfg.ModifyIndex == preIdx.ModifyIndex)
		} else {
			verifrt.Assert("C10.autopilot.unchanged-when-not-matched", cfg == nil)
		}
		verifrt.Reached("rejected")
	}
}

// ACL tokens: a batch set with the CAS option changes a token iff the supplied index matches (zero: the
// token is absent). The call reports nothing either way (it returns nil; its only caller never sets the
// option), so "reported iff applied" has no meaning here and is not asserted.
func VerifC10_ACLTokenCAS() {
	s := NewStateStore(nil)
	const accessor, secret = "aaaaaaaa-1111-1111-1111-aaaaaaaaaaaa", "bbbbbbbb-2222-2222-2222-bbbbbbbbbbbb"
	i1 := verifrt.U64("i1")
	idx := verifrt.U64("idx")
	verifrt.Assume(i1 >= 1 && i1 < idx && idx < 1<<62)
	present := verifrt.Bool("present")
	if present {
		if err := s.ACLTokenSet(i1, &structs.ACLToken{AccessorID: accessor, SecretID: secret, Description: "old"}); err != nil {
			panic(err)
		}
	}
	cidx := verifrt.U64("cidx")
	err := s.ACLTokenBatchSet(idx, structs.ACLTokens{{AccessorID: accessor, SecretID: secret, Description: "new",
		RaftIndex: structs.RaftIndex{ModifyIndex: cidx}}}, ACLTokenSetOptions{CAS: true})
	verifrt.Assert("C10.acl-token.no-error", err == nil)
	_, tok, _ := s.ACLTokenGetByAccessor(nil, accessor, nil)
	matched := (!present && cidx == 0) || (present && cidx != 0 && cidx == i1)
	if matched {
		verifrt.Assert("C10.acl-token.applied-when-matched", tok != nil && tok.Description == "new" && tok.ModifyIndex == idx)
		verifrt.Reached("applied")
	} else {
		if present {
			verifrt.Assert("C10.acl-token.unchanged-when-not-matched", tok != nil && tok.Description == "old" && tok.ModifyIndex == i1)
		} else {
			verifrt.Assert("C10.acl-token.unchanged-when-not-matched", tok == nil)
		}
		verifrt.Assert("C10.acl-token.index-unchanged-when-not-matched", vIndex(s, "acl-tokens") == func() uint64 {
			if present {
				return i1
			}
			return 0
		}())
		verifrt.Reached("rejected")
	}
}
