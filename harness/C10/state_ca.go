//go:build verif

package state

import (
	"github.com/hashicorp/consul/agent/structs"
	"github.com/hashicorp/consul/internal/verifrt"
)

// C10: CARootSetCAS — applied iff the supplied index matches the table index,
// reported iff applied, nothing changes on failure.
func VerifC10_CARootSetCAS_Setup() any { return vNewStore() }

func vRoot(tag string, idLen int) *structs.CARoot {
	return &structs.CARoot{
		ID:        verifrt.StrN(tag+".id", idLen),
		Name:      "r",
		Active:    verifrt.Bool(tag + ".active"),
		RaftIndex: vRaftIndex(tag),
	}
}

func vRootsEqual(a []any, rs []*structs.CARoot) bool {
	if len(a) != len(rs) {
		return false
	}
	for _, x := range a {
		r := x.(*structs.CARoot)
		found := false
		for _, w := range rs {
			if w.ID == r.ID && w.Active == r.Active {
				found = true
			}
		}
		if !found {
			return false
		}
	}
	return true
}

type vRootSnap struct {
	id             string
	active         bool
	create, modify uint64
}

func vSnapRoots(rows []any) []vRootSnap {
	var out []vRootSnap
	for _, x := range rows {
		r := x.(*structs.CARoot)
		out = append(out, vRootSnap{r.ID, r.Active, r.CreateIndex, r.ModifyIndex})
	}
	return out
}

func vSameSnap(a, b []vRootSnap) bool {
	if len(a) != len(b) {
		return false
	}
	for i := range a {
		if a[i] != b[i] {
			return false
		}
	}
	return true
}

func VerifC10_CARootSetCAS(st any) {
	s := st.(*Store)
	// pre-state: 0..2 roots with distinct one-byte ids, exactly one active when non-empty
	n := verifrt.Choice("npre", 3)
	var pre []*structs.CARoot
	tblIdx := uint64(0)
	hasIdxRow := false
	if n > 0 {
		for i := 0; i < n; i++ {
			pre = append(pre, vRoot("pre"+string(rune('0'+i)), 1))
		}
		if n == 2 {
			verifrt.Assume(pre[0].ID < pre[1].ID)
			verifrt.Assume(pre[0].Active != pre[1].Active)
		} else {
			verifrt.Assume(pre[0].Active)
		}
		tblIdx = verifrt.U64("tblIdx")
		for _, r := range pre {
			verifrt.Assume(r.ModifyIndex <= tblIdx)
			vRawInsert(s, tableConnectCARoots, r)
		}
		vSetIndex(s, tableConnectCARoots, tblIdx)
		hasIdxRow = true
	}
	before := vSnapRoots(vDump(s, tableConnectCARoots))

	idx := verifrt.U64("idx")
	verifrt.Assume(idx > tblIdx)
	cidx := verifrt.U64("cidx")
	m := 1 + verifrt.Choice("nnew", 2)
	var rs []*structs.CARoot
	for i := 0; i < m; i++ {
		rs = append(rs, &structs.CARoot{ID: verifrt.StrN("new"+string(rune('0'+i))+".id", 1), Name: "n", Active: verifrt.Bool("new" + string(rune('0'+i)) + ".active")})
	}
	if m == 2 {
		verifrt.Assume(rs[0].ID != rs[1].ID)
	}
	nactive := 0
	for _, r := range rs {
		if r.Active {
			nactive++
		}
	}

	ok, err := s.CARootSetCAS(idx, cidx, rs)

	after := vSnapRoots(vDump(s, tableConnectCARoots))
	afterIdx := vIndex(s, tableConnectCARoots)
	matched := cidx == tblIdx
	wellFormed := nactive == 1
	changed := !vSameSnap(before, after) || afterIdx != tblIdx || vHasIndexRow(s, tableConnectCARoots) != hasIdxRow

	if err == nil {
		verifrt.Assert("C10.caroots.reported-iff-matched", ok == (matched && wellFormed))
	} else {
		verifrt.Assert("C10.caroots.error-means-not-ok", !ok)
	}
	if ok && err == nil {
		verifrt.Assert("C10.caroots.applied-when-reported", vRootsEqual(vDump(s, tableConnectCARoots), rs) && afterIdx == idx)
		verifrt.Reached("applied")
	} else {
		verifrt.Assert("C10.caroots.unchanged-on-failure", !changed)
		verifrt.Reached("rejected")
	}
	// exactly one active root (or empty table) afterwards
	na := 0
	for _, r := range after {
		if r.active {
			na++
		}
	}
	verifrt.Assert("C10.caroots.one-active", (len(after) == 0 && na == 0) || na == 1)
}
