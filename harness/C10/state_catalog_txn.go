//go:build verif

package state

import (
	"reflect"

	"github.com/hashicorp/consul/agent/structs"
	"github.com/hashicorp/consul/api"
	"github.com/hashicorp/consul/internal/verifrt"
	"github.com/hashicorp/consul/types"
)

// C10, catalog verbs in transactions: node-cas, node-delete-cas, service-cas,
// service-delete-cas, check-cas, check-delete-cas take effect iff the supplied
// index matches the entity the operation names, report success iff they took
// effect, and change nothing otherwise.

const (
	vNodeIDA = types.NodeID("aaaaaaaa-aaaa-aaaa-aaaa-aaaaaaaaaaaa")
	vNodeIDB = types.NodeID("bbbbbbbb-bbbb-bbbb-bbbb-bbbbbbbbbbbb")
)

var vCatalogTables = []string{tableNodes, tableServices, tableChecks, tableIndex, tableKindServiceNames}

func vCatalogDump(s *Store) [][]any {
	var out [][]any
	for _, t := range vCatalogTables {
		out = append(out, vDump(s, t))
	}
	return out
}

func VerifC10_CatalogTxnCAS() {
	s := NewStateStore(nil)
	i1 := verifrt.U64("i1")
	i2 := verifrt.U64("i2")
	i3 := verifrt.U64("i3")
	idx := verifrt.U64("idx")
	verifrt.Assume(i1 >= 1 && i1 < i2 && i2 < i3 && i3 < idx && idx < 1<<62)

	// pre-state: node n1 (without id or with id A), optionally its service s1 and the check c1
	hasNode := verifrt.Bool("pre.node")
	var nodeID types.NodeID
	hasSvc, hasCheck := false, false
	if hasNode {
		if verifrt.Bool("pre.node.has-id") {
			nodeID = vNodeIDA
		}
		if err := s.EnsureNode(i1, &structs.Node{Node: "n1", ID: nodeID, Address: "10.0.0.1"}); err != nil {
			panic(err)
		}
		if hasSvc = verifrt.Bool("pre.service"); hasSvc {
			if err := s.EnsureService(i2, "n1", &structs.NodeService{ID: "s1", Service: "web", Port: 80}); err != nil {
				panic(err)
			}
		}
		if hasCheck = verifrt.Bool("pre.check"); hasCheck {
			if err := s.EnsureCheck(i3, &structs.HealthCheck{Node: "n1", CheckID: "c1", Status: api.HealthPassing}); err != nil {
				panic(err)
			}
		}
	}
	before := vCatalogDump(s)
	cur := func(table string) uint64 { // current modify index of the entity, 0 when absent
		for _, r := range vDump(s, table) {
			switch x := r.(type) {
			case *structs.Node:
				return x.ModifyIndex
			case *structs.ServiceNode:
				return x.ModifyIndex
			case *structs.HealthCheck:
				return x.ModifyIndex
			}
		}
		return 0
	}

	cidx := verifrt.U64("cidx")
	var op *structs.TxnOp
	var present bool
	var curIdx uint64
	isDelete := false
	otherRefusal := false // a CAS whose index matches may still be refused by the write's own validation
	verb := verifrt.Choice("verb", 6)
	switch verb {
	case 0:
		n := structs.Node{Node: "n1", Address: "10.9.9.9", RaftIndex: structs.RaftIndex{ModifyIndex: cidx}}
		switch verifrt.Choice("op.node-id", 3) {
		case 1:
			n.ID = vNodeIDA
		case 2:
			n.ID = vNodeIDB
		}
		otherRefusal = hasNode && n.ID != nodeID
		op = &structs.TxnOp{Node: &structs.TxnNodeOp{Verb: api.NodeCAS, Node: n}}
		present, curIdx = hasNode, cur(tableNodes)
	case 1:
		op = &structs.TxnOp{Node: &structs.TxnNodeOp{Verb: api.NodeDeleteCAS, Node: structs.Node{Node: "n1", RaftIndex: structs.RaftIndex{ModifyIndex: cidx}}}}
		present, curIdx, isDelete = hasNode, cur(tableNodes), true
	case 2:
		op = &structs.TxnOp{Service: &structs.TxnServiceOp{Verb: api.ServiceCAS, Node: "n1",
			Service: structs.NodeService{ID: "s1", Service: "web", Port: 99, RaftIndex: structs.RaftIndex{ModifyIndex: cidx}}}}
		present, curIdx = hasSvc, cur(tableServices)
		otherRefusal = !hasNode
	case 3:
		op = &structs.TxnOp{Service: &structs.TxnServiceOp{Verb: api.ServiceDeleteCAS, Node: "n1",
			Service: structs.NodeService{ID: "s1", RaftIndex: structs.RaftIndex{ModifyIndex: cidx}}}}
		present, curIdx, isDelete = hasSvc, cur(tableServices), true
	case 4:
		op = &structs.TxnOp{Check: &structs.TxnCheckOp{Verb: api.CheckCAS,
			Check: structs.HealthCheck{Node: "n1", CheckID: "c1", Status: api.HealthCritical, RaftIndex: structs.RaftIndex{ModifyIndex: cidx}}}}
		present, curIdx = hasCheck, cur(tableChecks)
		otherRefusal = !hasNode
	default:
		op = &structs.TxnOp{Check: &structs.TxnCheckOp{Verb: api.CheckDeleteCAS,
			Check: structs.HealthCheck{Node: "n1", CheckID: "c1", RaftIndex: structs.RaftIndex{ModifyIndex: cidx}}}}
		present, curIdx, isDelete = hasCheck, cur(tableChecks), true
	}
	var matched bool
	if isDelete {
		matched = present && cidx == curIdx
	} else {
		matched = (!present && cidx == 0) || (present && cidx != 0 && cidx == curIdx)
	}

	_, errs := s.TxnRW(idx, structs.TxnOps{op})
	reported := len(errs) == 0
	after := vCatalogDump(s)
	changed := !reflect.DeepEqual(before, after)
	name := []string{"node-cas", "node-delete-cas", "service-cas", "service-delete-cas", "check-cas", "check-delete-cas"}[verb]
	verifrt.Assert("C10.catalog-txn."+name+".applied-only-if-matched", !changed || matched)
	verifrt.Assert("C10.catalog-txn."+name+".reported-iff-applied", reported == changed)
	if !otherRefusal {
		verifrt.Assert("C10.catalog-txn."+name+".applied-if-matched", !matched || changed)
	}
	if changed {
		verifrt.Reached("applied")
	} else {
		verifrt.Reached("rejected")
	}
}
