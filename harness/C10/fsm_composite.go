//go:build verif

package fsm

import (
	"github.com/hashicorp/consul/agent/consul/state"
	"github.com/hashicorp/consul/agent/structs"
	"github.com/hashicorp/consul/internal/verifrt"
)

// C10, composite conditional write: the FSM command that replaces the CA
// roots together with the CA configuration applies both parts or none, and
// reports success iff it applied.

func VerifC10_CARootsAndConfig() {
	s := state.NewStateStore(nil)
	i1 := verifrt.U64("i1")
	i2 := verifrt.U64("i2")
	idx := verifrt.U64("idx")
	verifrt.Assume(i1 >= 1 && i1 < i2 && i2 < idx && idx < 1<<62)

	// pre-state: optionally a root set written at i1 and optionally a configuration written at i2
	hasRoots := verifrt.Bool("pre.roots")
	hasConfig := verifrt.Bool("pre.config")
	if hasRoots {
		ok, err := s.CARootSetCAS(i1, 0, []*structs.CARoot{{ID: "r0", Name: "r0", Active: true}})
		if !ok || err != nil {
			panic("setup")
		}
	}
	if hasConfig {
		if err := s.CASetConfig(i2, &structs.CAConfiguration{ClusterID: "c", Provider: "consul"}); err != nil {
			panic(err)
		}
	}
	rootsIdx0, roots0, _ := s.CARoots(nil)
	_, cfg0, _ := s.CAConfig(nil)
	var cfgIdx0 uint64
	cfgProvider0 := ""
	if cfg0 != nil {
		cfgIdx0 = cfg0.ModifyIndex
		cfgProvider0 = cfg0.Provider
	}

	req := &structs.CARequest{
		Op:     structs.CAOpSetRootsAndConfig,
		Index:  verifrt.U64("req.roots-index"),
		Roots:  []*structs.CARoot{{ID: "r1", Name: "r1", Active: true}},
		Config: &structs.CAConfiguration{ClusterID: "c", Provider: "vault"},
	}
	req.Config.ModifyIndex = verifrt.U64("req.config-index")
	// (the store stamps the request's config object with the new index: note the supplied values first)
	rootsMatch := req.Index == rootsIdx0
	cfgMatch := req.Config.ModifyIndex == cfgIdx0
	res := ApplyConnectCAOperationFromRequest(s, req, idx)
	okRes, isBool := res.(bool)
	reported := isBool && okRes

	rootsIdx1, roots1, _ := s.CARoots(nil)
	_, cfg1, _ := s.CAConfig(nil)
	rootsChanged := rootsIdx1 != rootsIdx0 || len(roots1) != len(roots0) || (len(roots1) > 0 && roots1[0].ID != roots0[0].ID)
	rootsNew := len(roots1) == 1 && roots1[0].ID == "r1" && rootsIdx1 == idx
	cfgChanged := (cfg1 == nil) != (cfg0 == nil) || (cfg1 != nil && (cfg1.ModifyIndex != cfgIdx0 || cfg1.Provider != cfgProvider0))
	cfgNew := cfg1 != nil && cfg1.Provider == "vault" && cfg1.ModifyIndex == idx

	verifrt.Assert("C10.composite.all-or-nothing", (rootsNew && cfgNew) || (!rootsChanged && !cfgChanged))
	verifrt.Assert("C10.composite.applied-iff-both-match", (rootsNew && cfgNew) == (rootsMatch && cfgMatch))
	verifrt.Assert("C10.composite.reported-iff-applied", reported == (rootsNew && cfgNew))
	if reported {
		verifrt.Reached("applied")
	} else {
		verifrt.Reached("rejected")
	}
}
