//go:build verif

package stream

import (
	"context"
	"time"

	"github.com/hashicorp/consul/acl"
	"github.com/hashicorp/consul/internal/verifrt"
	"github.com/hashicorp/consul/proto/private/pbsubscribe"
)

// C11: a subscriber that applies the snapshot and then every delivered event
// holds, after each delivery, the store's value at the delivered index, and
// delivered indexes never decrease - for every interleaving of: commit of a
// write, hand-off of its events to the publisher, start of a subscription and
// consumption. The publisher's steps all run under e.lock, so a schedule is a
// sequence of atomic steps; the choice at each step is symbolic.

type vPayload struct{ val uint64 }

func (vPayload) HasReadPermission(acl.Authorizer) bool          { return true }
func (vPayload) Subject() Subject                               { return StringSubject("k") }
func (vPayload) ToSubscriptionEvent(uint64) *pbsubscribe.Event { return nil }

type vVersion struct{ idx, val uint64 }

type vStore struct{ versions []vVersion }

func (s *vStore) current() vVersion {
	if len(s.versions) == 0 {
		return vVersion{}
	}
	return s.versions[len(s.versions)-1]
}

// valueAt: the store's value as of index idx.
func (s *vStore) valueAt(idx uint64) (uint64, bool) {
	found, val := false, uint64(0)
	for _, v := range s.versions {
		if v.idx <= idx {
			found, val = true, v.val
		}
	}
	return val, found
}

type vView struct {
	sub       *Subscription
	haveIndex bool
	index     uint64
	val       uint64
	hasVal    bool
}

// ready: Subscription.Next would return without waiting (it skips items that carry no events)
func (e *vView) ready() bool {
	it := e.sub.currentItem
	for {
		nx, ok := it.NextNoBlock()
		if !ok {
			return false
		}
		if nx.Err != nil || len(nx.Events) > 0 {
			return true
		}
		it = nx
	}
}

func VerifC11_Schedules() {
	steps := 7
	if verifrt.Thorough() {
		steps = 8
	}
	topic := StringTopic("t")
	store := &vStore{}
	pub := NewEventPublisher(10 * time.Second)
	pub.RegisterHandler(topic, func(req SubscribeRequest, buf SnapshotAppender) (uint64, error) {
		cur := store.current()
		if cur.idx != 0 {
			buf.Append([]Event{{Topic: topic, Index: cur.idx, Payload: vPayload{cur.val}}})
		}
		return cur.idx, nil
	}, false)

	var views []*vView
	nextIdx := uint64(10)
	commits := 0
	// one delivery to subscriber w, with the per-delivery assertions
	deliver := func(w *vView) {
		ev, err := w.sub.Next(context.Background())
		verifrt.Assert("C11.next.no-error", err == nil)
		if ev.IsNewSnapshotToFollow() {
			// the server could not resume: the client drops its view and takes the snapshot that follows
			w.haveIndex, w.hasVal = false, false
			return
		}
		if w.haveIndex {
			verifrt.Assert("C11.delivered-index-never-decreases", ev.Index >= w.index)
		}
		w.haveIndex, w.index = true, ev.Index
		if p, ok := ev.Payload.(vPayload); ok {
			w.val, w.hasVal = p.val, true
		}
		if !ev.IsFramingEvent() || ev.IsEndOfSnapshot() {
			want, exists := store.valueAt(ev.Index)
			verifrt.Assert("C11.view-equals-store-at-delivered-index", w.hasVal == exists && (!exists || w.val == want))
		}
	}
	for step := 0; step < steps; step++ {
		switch verifrt.Choice("step", 6) {
		case 0: // commit a write: the state changes first, its events are queued for the publisher
			if commits >= 3 {
				verifrt.Assume(false)
			}
			commits++
			nextIdx += 1 + uint64(verifrt.Choice("gap", 2))
			v := vVersion{nextIdx, verifrt.U64("val")}
			store.versions = append(store.versions, v)
			pub.Publish([]Event{{Topic: topic, Index: v.idx, Payload: vPayload{v.val}}})
		case 1: // the publisher goroutine hands one queued batch to the topic buffers
			if !pub.VerifDrainOne() {
				verifrt.Assume(false)
			}
		case 2: // a new subscriber
			if len(views) >= 2 {
				verifrt.Assume(false)
			}
			sub, err := pub.Subscribe(&SubscribeRequest{Topic: topic, Subject: StringSubject("k")})
			verifrt.Assert("C11.subscribe.no-error", err == nil)
			views = append(views, &vView{sub: sub})
		case 3: // a subscriber consumes its next event
			if len(views) == 0 {
				verifrt.Assume(false)
			}
			w := views[verifrt.Choice("who", len(views))]
			if !w.ready() {
				verifrt.Assume(false)
			}
			deliver(w)
			verifrt.Reached("delivered")
		case 4: // a client that saw the state as of an earlier committed index (in a connection since closed) resumes there
			if len(views) >= 2 || len(store.versions) == 0 {
				verifrt.Assume(false)
			}
			seen := store.versions[verifrt.Choice("resume-at", len(store.versions))]
			sub, err := pub.Subscribe(&SubscribeRequest{Topic: topic, Subject: StringSubject("k"), Index: seen.idx})
			verifrt.Assert("C11.subscribe.no-error", err == nil)
			views = append(views, &vView{sub: sub, haveIndex: true, index: seen.idx, val: seen.val, hasVal: true})
			verifrt.Reached("resumed")
		case 5: // a subscriber goes away
			if len(views) == 0 {
				verifrt.Assume(false)
			}
			k := verifrt.Choice("who", len(views))
			views[k].sub.Unsubscribe()
			views = append(views[:k:k], views[k+1:]...)
		}
	}
	// epilogue: the publisher catches up and every remaining subscriber consumes what is there for it; no
	// committed change may have been skipped
	for pub.VerifDrainOne() {
	}
	for _, w := range views {
		for n := 0; n < 12 && w.ready(); n++ {
			deliver(w)
		}
		verifrt.Assert("C11.consumption-terminates", !w.ready())
		cur := store.current()
		verifrt.Assert("C11.no-committed-change-skipped", w.hasVal == (cur.idx != 0) && (!w.hasVal || w.val == cur.val))
	}
	verifrt.Reached("end")
}

// Forced resubscription: after the server refreshed its topics (snapshot restore) or after a change of the
// subscriber's token was published, the subscriber's next read fails with the corresponding error - it is
// never left consuming from the old buffers - while subscribers with other tokens are not disturbed by a
// token change.
func VerifC11_ForcedResubscribe() {
	topic := StringTopic("t")
	store := &vStore{}
	pub := NewEventPublisher(10 * time.Second)
	pub.RegisterHandler(topic, func(req SubscribeRequest, buf SnapshotAppender) (uint64, error) {
		cur := store.current()
		if cur.idx != 0 {
			buf.Append([]Event{{Topic: topic, Index: cur.idx, Payload: vPayload{cur.val}}})
		}
		return cur.idx, nil
	}, false)
	type sub struct {
		s      *Subscription
		token  string
		closed int // 0 open, 1 must report ErrSubForceClosed, 2 must report ErrACLChanged
	}
	var subs []*sub
	nextIdx := uint64(10)
	tokens := []string{"tokA", "tokB"}
	for step := 0; step < 6; step++ {
		switch verifrt.Choice("step", 6) {
		case 0: // commit
			nextIdx++
			v := vVersion{nextIdx, verifrt.U64("val")}
			store.versions = append(store.versions, v)
			pub.Publish([]Event{{Topic: topic, Index: v.idx, Payload: vPayload{v.val}}})
		case 1: // hand-off
			if !pub.VerifDrainOne() {
				verifrt.Assume(false)
			}
		case 2: // subscribe with one of two tokens
			if len(subs) >= 2 {
				verifrt.Assume(false)
			}
			tok := tokens[verifrt.Choice("token", 2)]
			s, err := pub.Subscribe(&SubscribeRequest{Topic: topic, Subject: StringSubject("k"), Token: tok})
			verifrt.Assert("C11.subscribe.no-error", err == nil)
			subs = append(subs, &sub{s: s, token: tok})
		case 3: // the server restored a snapshot: every topic is refreshed
			pub.RefreshAllTopics()
			for _, x := range subs {
				if x.closed == 0 {
					x.closed = 1
				}
			}
		case 4: // a change of token A (policy, role or the token itself) is committed and handed to the publisher
			// (one commit may affect several tokens: others are listed before and after it, with or without subscribers)
			pub.Publish([]Event{NewCloseSubscriptionEvent([]string{"tok-without-subscriber", "tokA", "tok-other"})})
			for pub.VerifDrainOne() {
			}
			for _, x := range subs {
				if x.closed == 0 && x.token == "tokA" {
					x.closed = 2
				}
			}
		case 5: // a subscriber reads
			if len(subs) == 0 {
				verifrt.Assume(false)
			}
			x := subs[verifrt.Choice("who", len(subs))]
			v := &vView{sub: x.s}
			if x.closed == 0 && !v.ready() {
				verifrt.Assume(false)
			}
			_, err := x.s.Next(context.Background())
			switch x.closed {
			case 0:
				verifrt.Assert("C11.forced.undisturbed-subscriber-keeps-reading", err == nil)
			case 1:
				verifrt.Assert("C11.forced.refresh-forces-resubscribe", err == ErrSubForceClosed)
				verifrt.Reached("force-closed")
			case 2:
				verifrt.Assert("C11.forced.token-change-forces-resubscribe", err == ErrACLChanged)
				verifrt.Reached("acl-changed")
			}
		}
	}
	verifrt.Reached("end")
}

// After a refresh of the topics (snapshot restore) with several subscribers on one subject: the old
// subscribers unsubscribe and resubscribe in any order; whoever holds a subscription made after the
// refresh is not left behind by a late unsubscribe of an old one: it receives every commit made afterwards.
func VerifC11_ResubscribeAfterRefresh() {
	topic := StringTopic("t")
	store := &vStore{}
	pub := NewEventPublisher(10 * time.Second)
	pub.RegisterHandler(topic, func(req SubscribeRequest, buf SnapshotAppender) (uint64, error) {
		cur := store.current()
		if cur.idx != 0 {
			buf.Append([]Event{{Topic: topic, Index: cur.idx, Payload: vPayload{cur.val}}})
		}
		return cur.idx, nil
	}, false)
	nextIdx := uint64(10)
	commit := func() {
		nextIdx++
		v := vVersion{nextIdx, nextIdx * 7}
		store.versions = append(store.versions, v)
		pub.Publish([]Event{{Topic: topic, Index: v.idx, Payload: vPayload{v.val}}})
		for pub.VerifDrainOne() {
		}
	}
	subscribe := func() *Subscription {
		s, err := pub.Subscribe(&SubscribeRequest{Topic: topic, Subject: StringSubject("k"), Token: "tok"})
		verifrt.Assert("C11.refresh.subscribe-no-error", err == nil)
		return s
	}
	if verifrt.Bool("commit-before") {
		commit()
	}
	old := []*Subscription{subscribe(), subscribe()}
	if verifrt.Bool("commit-between") {
		commit()
	}
	pub.RefreshAllTopics()
	var fresh []*Subscription
	for step := 0; step < 4; step++ {
		switch verifrt.Choice("step", 4) {
		case 0: // an old subscriber (force-closed by the refresh) goes away
			if len(old) == 0 {
				verifrt.Assume(false)
			}
			k := verifrt.Choice("which-old", len(old))
			old[k].Unsubscribe()
			old = append(old[:k:k], old[k+1:]...)
		case 1: // somebody subscribes again
			if len(fresh) >= 2 {
				verifrt.Assume(false)
			}
			fresh = append(fresh, subscribe())
		case 2:
			commit()
		case 3: // nothing
		}
	}
	if len(fresh) == 0 {
		verifrt.Assume(false)
	}
	// a final commit must reach every subscription made after the refresh
	commit()
	final := store.current()
	for i, s := range fresh {
		v := &vView{sub: s}
		seen := false
		for n := 0; n < 8 && v.ready(); n++ {
			ev, err := s.Next(context.Background())
			verifrt.Assert("C11.refresh.fresh-subscriber-reads-without-error", err == nil)
			if err != nil {
				break
			}
			if ev.Index == final.idx {
				seen = true
			}
		}
		_ = i
		verifrt.Assert("C11.refresh.fresh-subscriber-receives-every-later-commit", seen)
	}
	verifrt.Reached("end")
}
