//go:build verif

package state

import (
	"reflect"
	"sort"

	"github.com/hashicorp/consul/agent/consul/stream"
	"github.com/hashicorp/consul/agent/structs"
	"github.com/hashicorp/consul/api"
	"github.com/hashicorp/consul/internal/verifrt"
	"github.com/hashicorp/consul/proto/private/pbsubscribe"
)

// C11, event content: a subscriber that applies the snapshot and then every
// event the commits hand to the publisher holds, after each commit, exactly
// what the equivalent direct query returns. The publisher here is a recording
// stand-in (its scheduling is the subject of VerifC11_Schedules); the events
// are those the real change processors compute inside the real commits.

type vC11Pub struct{ events []stream.Event }

func (p *vC11Pub) Publish(es []stream.Event) { p.events = append(p.events, es...) }
func (p *vC11Pub) RegisterHandler(stream.Topic, stream.SnapshotFunc, bool) error {
	return nil
}
func (p *vC11Pub) Subscribe(*stream.SubscribeRequest) (*stream.Subscription, error) {
	return nil, nil
}

type vC11Appender struct{ events []stream.Event }

func (a *vC11Appender) Append(es []stream.Event) { a.events = append(a.events, es...) }

// a subscriber of one service-health topic and subject, with the view the
// real health materializer keeps (keyed by node and service id)
type vC11Sub struct {
	topic   stream.Topic
	service string
	view    map[string]*structs.CheckServiceNode
	last    uint64
}

func (v *vC11Sub) subject() EventSubjectService {
	return EventSubjectService{Key: v.service, EnterpriseMeta: *structs.DefaultEnterpriseMetaInDefaultPartition()}
}

func (v *vC11Sub) apply(e stream.Event) {
	p, ok := e.Payload.(EventPayloadCheckServiceNode)
	if !ok {
		return
	}
	id := p.Value.Node.Node + "/" + p.Value.Service.ID
	switch p.Op {
	case pbsubscribe.CatalogOp_Register:
		v.view[id] = p.Value
	case pbsubscribe.CatalogOp_Deregister:
		delete(v.view, id)
	}
}

func (v *vC11Sub) snapshot(s *Store) {
	a := &vC11Appender{}
	idx, err := s.ServiceHealthSnapshot(stream.SubscribeRequest{Topic: v.topic, Subject: v.subject()}, a)
	verifrt.Assert("C11.events.snapshot-no-error", err == nil)
	v.view = map[string]*structs.CheckServiceNode{}
	for _, e := range a.events {
		v.apply(e)
	}
	v.last = idx
}

// deliver every published event routed to this subscriber (same topic, same subject string), in order
func (v *vC11Sub) deliver(tag string, es []stream.Event) {
	want := v.subject().String()
	for _, e := range es {
		if e.Topic != v.topic || e.Payload.Subject().String() != want {
			continue
		}
		verifrt.Assert("C11.events."+tag+".index-never-decreases", e.Index >= v.last)
		v.last = e.Index
		v.apply(e)
	}
}

func (v *vC11Sub) agrees(s *Store) bool {
	var nodes structs.CheckServiceNodes
	var err error
	if v.topic == EventTopicServiceHealthConnect {
		_, nodes, err = s.CheckConnectServiceNodes(nil, v.service, nil, "")
	} else {
		_, nodes, err = s.CheckServiceNodes(nil, v.service, nil, "")
	}
	if err != nil || len(nodes) != len(v.view) {
		return false
	}
	for i := range nodes {
		n := nodes[i]
		got, ok := v.view[n.Node.Node+"/"+n.Service.ID]
		if !ok {
			return false
		}
		if !reflect.DeepEqual(got.Node, n.Node) || !reflect.DeepEqual(got.Service, n.Service) || !vSameChecks(got.Checks, n.Checks) {
			return false
		}
	}
	return true
}

func vSameChecks(a, b structs.HealthChecks) bool {
	if len(a) != len(b) {
		return false
	}
	x := append(structs.HealthChecks{}, a...)
	y := append(structs.HealthChecks{}, b...)
	sort.Slice(x, func(i, j int) bool { return x[i].CheckID < x[j].CheckID })
	sort.Slice(y, func(i, j int) bool { return y[i].CheckID < y[j].CheckID })
	for i := range x {
		if !reflect.DeepEqual(x[i], y[i]) {
			return false
		}
	}
	return true
}

// the service-list subscriber (names of registered services)
type vC11ListSub struct{ names map[string]bool }

func (l *vC11ListSub) snapshot(s *Store) {
	a := &vC11Appender{}
	_, err := s.ServiceListSnapshot(stream.SubscribeRequest{Topic: EventTopicServiceList, Subject: stream.SubjectWildcard}, a)
	verifrt.Assert("C11.events.list-snapshot-no-error", err == nil)
	l.names = map[string]bool{}
	l.deliver(a.events)
}

func (l *vC11ListSub) deliver(es []stream.Event) {
	for _, e := range es {
		p, ok := e.Payload.(*EventPayloadServiceListUpdate)
		if !ok || e.Topic != EventTopicServiceList {
			continue
		}
		if p.Op == pbsubscribe.CatalogOp_Register {
			l.names[p.Name] = true
		} else {
			delete(l.names, p.Name)
		}
	}
}

func (l *vC11ListSub) agrees(s *Store) bool {
	_, names, err := s.ServiceNamesOfKind(nil, "")
	if err != nil || len(names) != len(l.names) {
		return false
	}
	for _, n := range names {
		if !l.names[n.Service.Name] {
			return false
		}
	}
	return true
}

var vC11Names = []string{"web", "api"}

func vC11Status(tag string) string {
	if verifrt.Bool(tag) {
		return api.HealthCritical
	}
	return api.HealthPassing
}

// one catalog write; returns a label for assertion ids. A write the store refuses (e.g. a check for a node
// that a previous step removed) is not part of the history. kinds limits the choice to the first kinds writes.
func vC11Write(s *Store, tag string, idx uint64, withProxy bool, kinds int) string {
	switch verifrt.Choice(tag, kinds) {
	case 0: // re-registration of s1, possibly under the other name, possibly with a node change and a check status
		name := vC11Names[verifrt.Choice(tag+".name", 2)]
		req := &structs.RegisterRequest{Node: "n1", Address: "10.0.0.1",
			Service: &structs.NodeService{ID: "s1", Service: name, Port: 80},
			Checks:  structs.HealthChecks{{Node: "n1", CheckID: "c1", ServiceID: "s1", Status: vC11Status(tag + ".crit")}}}
		if verifrt.Bool(tag + ".nodechange") {
			req.NodeMeta = map[string]string{"rack": "r2"}
		}
		if verifrt.Bool(tag + ".nodecheck") {
			req.Checks = append(req.Checks, &structs.HealthCheck{Node: "n1", CheckID: "nc", Status: api.HealthCritical})
		}
		verifrt.Assume(s.EnsureRegistration(idx, req) == nil)
		return "register"
	case 1:
		verifrt.Assume(s.DeleteService(idx, "n1", "s1", nil, "") == nil)
		return "delete-service"
	case 2:
		verifrt.Assume(s.DeleteNode(idx, "n1", nil, "") == nil)
		return "delete-node"
	case 3: // node-level check change
		verifrt.Assume(s.EnsureCheck(idx, &structs.HealthCheck{Node: "n1", CheckID: "nc", Status: vC11Status(tag + ".crit")}) == nil)
		return "node-check"
	case 4: // service check removed
		verifrt.Assume(s.DeleteCheck(idx, "n1", "c1", nil, "") == nil)
		return "delete-check"
	case 5: // the sidecar changes the service it fronts, possibly together with a node change
		if !withProxy {
			verifrt.Assume(false)
		}
		dst := vC11Names[verifrt.Choice(tag+".dst", 2)]
		req := &structs.RegisterRequest{Node: "n1", Address: "10.0.0.1",
			Service: &structs.NodeService{Kind: structs.ServiceKindConnectProxy, ID: "p1", Service: "p", Port: 81,
				Proxy: structs.ConnectProxyConfig{DestinationServiceName: dst}}}
		if verifrt.Bool(tag + ".nodechange") {
			req.NodeMeta = map[string]string{"rack": "r3"}
		}
		verifrt.Assume(s.EnsureRegistration(idx, req) == nil)
		return "proxy-destination"
	default: // a transaction that renames s1 and touches the node in one commit
		name := vC11Names[verifrt.Choice(tag+".name", 2)]
		ops := structs.TxnOps{
			{Service: &structs.TxnServiceOp{Verb: api.ServiceSet, Node: "n1", Service: structs.NodeService{ID: "s1", Service: name, Port: 80}}},
		}
		if verifrt.Bool(tag + ".nodechange") {
			ops = append(ops, &structs.TxnOp{Node: &structs.TxnNodeOp{Verb: api.NodeSet, Node: structs.Node{Node: "n1", Address: "10.0.0.9"}}})
		}
		_, errs := s.TxnRW(idx, ops)
		verifrt.Assume(len(errs) == 0)
		return "txn"
	}
}

func VerifC11_CatalogEvents() {
	pub := &vC11Pub{}
	s := NewStateStoreWithEventPublisher(nil, pub)
	idx := verifrt.U64("idx")
	verifrt.Assume(idx >= 1 && idx < 1<<60)

	// base state: s1 on n1 under one of two names with a service check; optionally a second instance of web on n2
	// and a sidecar on n1
	name0 := vC11Names[verifrt.Choice("name0", 2)]
	withProxy := verifrt.Bool("proxy")
	early := verifrt.Bool("subscribe-before-base") // subscribers may also start on the empty catalog
	subs := []*vC11Sub{
		{topic: EventTopicServiceHealth, service: "web"},
		{topic: EventTopicServiceHealth, service: "api"},
		{topic: EventTopicServiceHealthConnect, service: "web"},
		{topic: EventTopicServiceHealthConnect, service: "api"},
	}
	list := &vC11ListSub{}
	if early {
		for _, v := range subs {
			v.snapshot(s)
		}
		list.snapshot(s)
	}
	check := func(tag string) {
		for _, v := range subs {
			v.deliver(tag, pub.events)
		}
		list.deliver(pub.events)
		pub.events = nil
		verifrt.Assert("C11.events."+tag+".health-view-equals-query-web", subs[0].agrees(s))
		verifrt.Assert("C11.events."+tag+".health-view-equals-query-api", subs[1].agrees(s))
		verifrt.Assert("C11.events."+tag+".connect-view-equals-query-web", subs[2].agrees(s))
		verifrt.Assert("C11.events."+tag+".connect-view-equals-query-api", subs[3].agrees(s))
		verifrt.Assert("C11.events."+tag+".service-list-equals-query", list.agrees(s))
	}
	verifrt.Assert("C11.events.write-no-error", s.EnsureRegistration(idx, &structs.RegisterRequest{Node: "n1", Address: "10.0.0.1",
		Service: &structs.NodeService{ID: "s1", Service: name0, Port: 80},
		Checks:  structs.HealthChecks{{Node: "n1", CheckID: "c1", ServiceID: "s1", Status: api.HealthPassing}}}) == nil)
	if early {
		check("base")
	}
	if verifrt.Bool("second") {
		verifrt.Assert("C11.events.write-no-error", s.EnsureRegistration(idx+1, &structs.RegisterRequest{Node: "n2", Address: "10.0.0.2",
			Service: &structs.NodeService{ID: "s2", Service: "web", Port: 80}}) == nil)
	}
	if withProxy {
		verifrt.Assert("C11.events.write-no-error", s.EnsureRegistration(idx+2, &structs.RegisterRequest{Node: "n1", Address: "10.0.0.1",
			Service: &structs.NodeService{Kind: structs.ServiceKindConnectProxy, ID: "p1", Service: "p", Port: 81,
				Proxy: structs.ConnectProxyConfig{DestinationServiceName: name0}}}) == nil)
	}
	if early {
		check("base")
	} else {
		pub.events = nil
		for _, v := range subs {
			v.snapshot(s)
		}
		list.snapshot(s)
		check("snapshot")
	}

	// one further commit (two in the thorough tier); the map iteration order inside the change processors is arbitrary
	verifrt.PermuteMaps(true)
	w1 := vC11Write(s, "w1", idx+3, withProxy, 7)
	check(w1)
	if verifrt.Thorough() {
		// second commit: re-registration (possibly renaming), service or node deregistration
		w2 := vC11Write(s, "w2", idx+4, withProxy, 3)
		check("second." + w2)
	}
	verifrt.PermuteMaps(false)
	verifrt.Reached("end")
}

// Config-entry events: a subscriber of one entry (by its exact name) and a subscriber of the whole kind apply
// the snapshot and then every published event; after every commit each view equals the direct query
// (Store.ConfigEntry / ConfigEntriesByKind). Deletions are not skipped; names may contain upper-case letters.
func VerifC11_ConfigEntryEvents() {
	pub := &vC11Pub{}
	s := NewStateStoreWithEventPublisher(nil, pub)
	name := []string{"web", "Web-API"}[verifrt.Choice("name", 2)]
	other := "other"
	em := structs.DefaultEnterpriseMetaInDefaultPartition()
	subject := EventSubjectConfigEntry{Name: name, EnterpriseMeta: em}
	entry := func(n, proto string) *structs.ServiceConfigEntry {
		e := &structs.ServiceConfigEntry{Kind: structs.ServiceDefaults, Name: n, Protocol: proto}
		if err := e.Normalize(); err != nil {
			panic(err)
		}
		return e
	}
	idx := verifrt.U64("idx")
	verifrt.Assume(idx >= 1 && idx < 1<<60)
	if verifrt.Bool("exists-before-subscription") {
		if err := s.EnsureConfigEntry(idx, entry(name, "tcp")); err != nil {
			panic(err)
		}
	}
	pub.events = nil
	// views: protocol of the named entry ("" = absent); names -> protocol for the kind
	named, kind := "", map[string]string{}
	apply := func(e stream.Event, byName bool) {
		p, ok := e.Payload.(EventPayloadConfigEntry)
		if !ok {
			return
		}
		proto := ""
		if p.Op == pbsubscribe.ConfigEntryUpdate_Upsert {
			proto = p.Value.(*structs.ServiceConfigEntry).Protocol
		}
		if byName {
			named = proto
			return
		}
		if proto == "" {
			delete(kind, p.Value.GetName())
		} else {
			kind[p.Value.GetName()] = proto
		}
	}
	a := &vC11Appender{}
	_, err := s.ServiceDefaultsSnapshot(stream.SubscribeRequest{Topic: EventTopicServiceDefaults, Subject: subject}, a)
	verifrt.Assert("C11.config.snapshot-no-error", err == nil)
	for _, e := range a.events {
		apply(e, true)
	}
	a = &vC11Appender{}
	_, err = s.ServiceDefaultsSnapshot(stream.SubscribeRequest{Topic: EventTopicServiceDefaults, Subject: stream.SubjectWildcard}, a)
	verifrt.Assert("C11.config.snapshot-no-error", err == nil)
	for _, e := range a.events {
		apply(e, false)
	}
	check := func(tag string) {
		for _, e := range pub.events {
			if e.Topic != EventTopicServiceDefaults {
				continue
			}
			// the publisher routes an event to the subscribers of its exact subject and to wildcard subscribers
			if e.Payload.Subject().String() == subject.String() {
				apply(e, true)
			}
			apply(e, false)
		}
		pub.events = nil
		_, got, _ := s.ConfigEntry(nil, structs.ServiceDefaults, name, nil)
		want := ""
		if got != nil {
			want = got.(*structs.ServiceConfigEntry).Protocol
		}
		verifrt.Assert("C11.config."+tag+".named-view-equals-query", named == want)
		_, all, _ := s.ConfigEntriesByKind(nil, structs.ServiceDefaults, nil)
		same := len(all) == len(kind)
		for _, x := range all {
			if kind[x.GetName()] != x.(*structs.ServiceConfigEntry).Protocol {
				same = false
			}
		}
		verifrt.Assert("C11.config."+tag+".kind-view-equals-query", same)
	}
	check("snapshot")
	for step := 0; step < 2; step++ {
		idx++
		switch verifrt.Choice("write", 4) {
		case 0:
			verifrt.Assume(s.EnsureConfigEntry(idx, entry(name, "http")) == nil)
			check("upsert")
		case 1:
			verifrt.Assume(s.DeleteConfigEntry(idx, structs.ServiceDefaults, name, nil) == nil)
			check("delete")
		case 2:
			verifrt.Assume(s.EnsureConfigEntry(idx, entry(other, "grpc")) == nil)
			check("upsert-other")
		case 3:
			verifrt.Assume(s.EnsureConfigEntry(idx, entry(name, "grpc")) == nil)
			check("upsert-again")
		}
	}
	verifrt.Reached("end")
}
