//go:build verif

package xds

import (
	"regexp"
	"sort"
	"strings"

	envoy_rbac_v3 "github.com/envoyproxy/go-control-plane/envoy/config/rbac/v3"
	envoy_route_v3 "github.com/envoyproxy/go-control-plane/envoy/config/route/v3"
	envoy_matcher_v3 "github.com/envoyproxy/go-control-plane/envoy/type/matcher/v3"

	"github.com/hashicorp/consul/agent/structs"
	"github.com/hashicorp/consul/internal/verifrt"
)

// C14 for HTTP destinations: for intentions with L7 permissions the RBAC
// filter allows a request (caller identity, path, method, one header) iff the
// intention semantics allow it: the most specific intention for the caller
// decides; if it has permissions, its first permission matching the request
// decides, and a request that matches none falls to the default policy.

type vRequest struct {
	path    string
	method  string
	hasHdr  bool // header x-flag is present
	hdrVal  string
}

func vEvalString(m *envoy_matcher_v3.StringMatcher, v string) bool {
	switch {
	case m.GetExact() != "" || m.GetMatchPattern() == nil:
		return v == m.GetExact()
	case m.GetPrefix() != "":
		return strings.HasPrefix(v, m.GetPrefix())
	case m.GetSuffix() != "":
		return strings.HasSuffix(v, m.GetSuffix())
	case m.GetSafeRegex() != nil:
		// envoy's safe_regex must match the whole value
		return regexp.MustCompile("^(?:" + m.GetSafeRegex().GetRegex() + ")$").MatchString(v)
	}
	panic("unsupported string matcher in generated RBAC")
}

func vEvalHeader(h *envoy_route_v3.HeaderMatcher, r vRequest) bool {
	var present bool
	var val string
	switch h.Name {
	case ":method":
		present, val = true, r.method
	case "x-flag":
		present, val = r.hasHdr, r.hdrVal
	default:
		panic("unexpected header in generated RBAC: " + h.Name)
	}
	var m bool
	switch {
	case h.GetPresentMatch():
		m = present
	case h.GetStringMatch() != nil:
		m = present && vEvalString(h.GetStringMatch(), val)
	default:
		panic("unsupported header matcher in generated RBAC")
	}
	if h.InvertMatch {
		// envoy: an inverted value match on an absent header matches
		if h.GetPresentMatch() {
			return !m
		}
		return !present || !m
	}
	return m
}

func vEvalPermission(p *envoy_rbac_v3.Permission, r vRequest) bool {
	switch {
	case p.GetAny():
		return true
	case p.GetAndRules() != nil:
		for _, q := range p.GetAndRules().Rules {
			if !vEvalPermission(q, r) {
				return false
			}
		}
		return true
	case p.GetOrRules() != nil:
		for _, q := range p.GetOrRules().Rules {
			if vEvalPermission(q, r) {
				return true
			}
		}
		return false
	case p.GetNotRule() != nil:
		return !vEvalPermission(p.GetNotRule(), r)
	case p.GetUrlPath() != nil:
		return vEvalString(p.GetUrlPath().GetPath(), r.path)
	case p.GetHeader() != nil:
		return vEvalHeader(p.GetHeader(), r)
	}
	panic("unsupported permission kind in generated RBAC")
}

func vEvalRBACHTTP(rb *envoy_rbac_v3.RBAC, uri string, r vRequest) bool {
	matched := false
	for _, pol := range rb.Policies {
		pm := false
		for _, p := range pol.Principals {
			if vEvalPrincipal(p, uri) {
				pm = true
			}
		}
		qm := false
		for _, q := range pol.Permissions {
			if vEvalPermission(q, r) {
				qm = true
			}
		}
		if pm && qm {
			matched = true
		}
	}
	if rb.Action == envoy_rbac_v3.RBAC_ALLOW {
		return matched
	}
	return !matched
}

// the reference reading of one permission
func vPermMatches(p *structs.IntentionPermission, r vRequest) bool {
	h := p.HTTP
	if h == nil {
		return true
	}
	switch {
	case h.PathExact != "":
		if r.path != h.PathExact {
			return false
		}
	case h.PathPrefix != "":
		if !strings.HasPrefix(r.path, h.PathPrefix) {
			return false
		}
	}
	for _, hd := range h.Header {
		m := false
		switch {
		case hd.Present:
			m = r.hasHdr
		case hd.Exact != "":
			m = r.hasHdr && r.hdrVal == hd.Exact
		}
		if hd.Invert {
			m = !m
		}
		if !m {
			return false
		}
	}
	if len(h.Methods) > 0 {
		ok := false
		for _, mth := range h.Methods {
			if mth == r.method {
				ok = true
			}
		}
		if !ok {
			return false
		}
	}
	return true
}

// full: every combination of path / methods / header restriction; otherwise a reduced family (quick tier)
func vPermission(tag string, full bool) *structs.IntentionPermission {
	p := &structs.IntentionPermission{Action: structs.IntentionActionAllow, HTTP: &structs.IntentionHTTPPermission{}}
	if verifrt.Bool(tag + ".deny") {
		p.Action = structs.IntentionActionDeny
	}
	if !full {
		if verifrt.Bool(tag + ".by-header") {
			p.HTTP.Header = []structs.IntentionHTTPHeaderPermission{{Name: "x-flag", Present: true}}
		} else {
			p.HTTP.PathPrefix = "/" + verifrt.Str(tag+".prefix", 1)
		}
		return p
	}
	switch verifrt.Choice(tag+".path", 3) {
	case 1:
		p.HTTP.PathExact = "/" + verifrt.StrN(tag+".exact", 1)
	case 2:
		p.HTTP.PathPrefix = "/" + verifrt.Str(tag+".prefix", 1)
	}
	switch verifrt.Choice(tag+".methods", 2) {
	case 1:
		p.HTTP.Methods = []string{"GET"}
	case 2:
		p.HTTP.Methods = []string{"GET", "POST"}
	}
	nh := 3
	if verifrt.Thorough() && tag == "p0" {
		nh = 4 // also an inverted header match
	}
	switch verifrt.Choice(tag+".header", nh) {
	case 1:
		p.HTTP.Header = []structs.IntentionHTTPHeaderPermission{{Name: "x-flag", Present: true}}
	case 2:
		p.HTTP.Header = []structs.IntentionHTTPHeaderPermission{{Name: "x-flag", Exact: "on"}}
	case 3:
		p.HTTP.Header = []structs.IntentionHTTPHeaderPermission{{Name: "x-flag", Present: true, Invert: true}}
	}
	// a permission restricts something (validation refuses an empty http block)
	verifrt.Assume(p.HTTP.PathExact != "" || p.HTTP.PathPrefix != "" || len(p.HTTP.Methods) > 0 || len(p.HTTP.Header) > 0)
	return p
}

func boolInt(b bool) int {
	if b {
		return 1
	}
	return 0
}

func VerifC14_HTTP() {
	// intention 1: web -> db with 1..2 permissions (the second one from the reduced family in the quick tier, from
	// the full family in the thorough tier); optional intention 2 on the wildcard source
	thorough := verifrt.Thorough()
	var ixns structs.Intentions
	first := &structs.Intention{SourceNS: "default", DestinationNS: "default", DestinationName: "db", SourceName: "web"}
	first.Permissions = append(first.Permissions, vPermission("p0", true))
	if verifrt.Bool("two-permissions") {
		first.Permissions = append(first.Permissions, vPermission("p1", thorough))
	}
	first.UpdatePrecedence()
	ixns = append(ixns, first)
	if verifrt.Bool("second") {
		x := &structs.Intention{SourceNS: "default", DestinationNS: "default", DestinationName: "db", SourceName: structs.WildcardSpecifier}
		kinds := 2
		switch verifrt.Choice("second.kind", kinds) {
		case 0:
			x.Action = structs.IntentionActionAllow
		case 1:
			x.Action = structs.IntentionActionDeny
		case 2:
			x.Permissions = []*structs.IntentionPermission{vPermission("q0", true)}
		}
		x.UpdatePrecedence()
		ixns = append(ixns, x)
	}
	sort.Sort(structs.IntentionPrecedenceSorter(ixns))
	defaultAllow := verifrt.Bool("defaultAllow")
	rbac, err := makeRBACRules(structs.SimplifiedIntentions(ixns), defaultAllow,
		rbacLocalInfo{trustDomain: "td.consul", datacenter: "dc1", partition: "default"}, true, nil, nil)
	verifrt.Assert("C14.http.no-error", err == nil)

	callers := []string{"web", "zzz"}
	caller := callers[verifrt.Choice("caller", len(callers))]
	uri := "spiffe://td.consul/ns/default/dc/dc1/svc/" + caller
	req := vRequest{path: "/" + verifrt.Str("req.path", 1), method: []string{"GET", "PUT", "POST"}[verifrt.Choice("req.method", 2)]}
	if req.hasHdr = verifrt.Bool("req.header"); req.hasHdr {
		req.hdrVal = []string{"on", "off"}[verifrt.Choice("req.header.value", 2)]
	}
	for i := 0; i < len(req.path); i++ {
		verifrt.Assume(req.path[i] < 0x80 && req.path[i] >= 0x20)
	}
	got := vEvalRBACHTTP(rbac, uri, req)

	// intention semantics
	want := defaultAllow
	best := -1
	for _, x := range ixns {
		if x.SourceName != caller && x.SourceName != structs.WildcardSpecifier {
			continue
		}
		rank := 0
		if x.SourceName != structs.WildcardSpecifier {
			rank = 1
		}
		if rank <= best {
			continue
		}
		best = rank
		if len(x.Permissions) == 0 {
			want = x.Action == structs.IntentionActionAllow
			continue
		}
		want = defaultAllow
		for _, p := range x.Permissions {
			if vPermMatches(p, req) {
				want = p.Action == structs.IntentionActionAllow
				break
			}
		}
	}
	if want {
		verifrt.Assert("C14.http.allowed-by-intentions-is-allowed-by-rbac", got)
	} else {
		verifrt.Assert("C14.http.denied-by-intentions-is-denied-by-rbac", !got)
	}
	verifrt.Reached("end")
}
