//go:build verif

package xds

import (
	"regexp"
	"sort"

	envoy_rbac_v3 "github.com/envoyproxy/go-control-plane/envoy/config/rbac/v3"

	"github.com/hashicorp/consul/agent/structs"
	"github.com/hashicorp/consul/internal/verifrt"
	"github.com/hashicorp/consul/proto/private/pbpeering"
)

// C14: the RBAC policy generated for a destination allows a caller identity
// iff the intention precedence rules allow it. The generated envoy RBAC proto
// is evaluated by a small reference evaluator against a symbolic caller SPIFFE
// URI (regex principals are decided symbolically).

var vSrcNames = []string{"web", "api", "web.v1", structs.WildcardSpecifier}

func vEvalPrincipal(p *envoy_rbac_v3.Principal, uri string) bool {
	switch {
	case p.GetAny():
		return true
	case p.GetAndIds() != nil:
		for _, q := range p.GetAndIds().Ids {
			if !vEvalPrincipal(q, uri) {
				return false
			}
		}
		return true
	case p.GetOrIds() != nil:
		for _, q := range p.GetOrIds().Ids {
			if vEvalPrincipal(q, uri) {
				return true
			}
		}
		return false
	case p.GetNotId() != nil:
		return !vEvalPrincipal(p.GetNotId(), uri)
	case p.GetAuthenticated() != nil:
		re := p.GetAuthenticated().GetPrincipalName().GetSafeRegex().GetRegex()
		return regexp.MustCompile(re).MatchString(uri)
	}
	panic("unsupported principal kind in generated RBAC")
}

func vEvalRBAC(r *envoy_rbac_v3.RBAC, uri string) bool {
	matched := false
	for _, pol := range r.Policies {
		for _, p := range pol.Principals {
			if vEvalPrincipal(p, uri) {
				matched = true
			}
		}
	}
	if r.Action == envoy_rbac_v3.RBAC_ALLOW {
		return matched
	}
	return !matched
}

func VerifC14_TCP() {
	n := 1 + verifrt.Choice("n", 2)
	if verifrt.Thorough() {
		n = 1 + verifrt.Choice("n3", 3)
	}
	var ixns structs.Intentions
	for i := 0; i < n; i++ {
		t := "ixn" + string(rune('0'+i))
		x := &structs.Intention{
			SourceNS: "default", DestinationNS: "default", DestinationName: "db",
			SourceName: vSrcNames[verifrt.Choice(t+".src", len(vSrcNames))],
			Action:     structs.IntentionActionAllow,
		}
		if verifrt.Bool(t + ".deny") {
			x.Action = structs.IntentionActionDeny
		}
		if verifrt.Bool(t + ".anydest") {
			// an intention on the wildcard destination also applies to this destination
			x.DestinationName = structs.WildcardSpecifier
		}
		for _, y := range ixns {
			verifrt.Assume(x.SourceName != y.SourceName || x.DestinationName != y.DestinationName)
		}
		x.UpdatePrecedence()
		ixns = append(ixns, x)
	}
	// optionally one more intention whose source lives in a peer (its callers present the peer's trust domain)
	var bundles []*pbpeering.PeeringTrustBundle
	if verifrt.Bool("peered-intention") {
		x := &structs.Intention{SourceNS: "default", DestinationNS: "default", DestinationName: "db", SourcePeer: "peer1",
			SourceName: []string{"web", structs.WildcardSpecifier}[verifrt.Choice("peered.src", 2)], Action: structs.IntentionActionAllow}
		if verifrt.Bool("peered.deny") {
			x.Action = structs.IntentionActionDeny
		}
		x.UpdatePrecedence()
		ixns = append(ixns, x)
		bundles = []*pbpeering.PeeringTrustBundle{{PeerName: "peer1", TrustDomain: "peer.consul", ExportedPartition: "default"}}
	}
	sort.Sort(structs.IntentionPrecedenceSorter(ixns))
	defaultAllow := verifrt.Bool("defaultAllow")
	rbac, err := makeRBACRules(structs.SimplifiedIntentions(ixns), defaultAllow,
		rbacLocalInfo{trustDomain: "td.consul", datacenter: "dc1", partition: "default"}, false, bundles, nil)
	verifrt.Assert("C14.tcp.no-error", err == nil)

	// the caller: any service name of 3 or 6 bytes without '/'
	slen := 3
	if verifrt.Bool("caller.long") {
		slen = 6
	}
	svc := verifrt.StrN("caller.svc", slen)
	for i := 0; i < len(svc); i++ {
		verifrt.Assume(svc[i] != '/' && svc[i] < 0x80 && svc[i] >= 0x20)
	}
	callerPeer := ""
	uri := "spiffe://td.consul/ns/default/dc/dc1/svc/" + svc
	if len(bundles) > 0 && verifrt.Bool("caller.from-peer") {
		callerPeer = "peer1"
		uri = "spiffe://peer.consul/ns/default/dc/dc9/svc/" + svc
	}
	got := vEvalRBAC(rbac, uri)

	// intention semantics: the most specific matching intention decides (exact
	// destination before wildcard destination, then exact source before wildcard
	// source), else the default policy
	want := defaultAllow
	best := -1
	for _, x := range ixns {
		if x.SourcePeer != callerPeer || (x.SourceName != svc && x.SourceName != structs.WildcardSpecifier) {
			continue
		}
		rank := 0
		if x.DestinationName != structs.WildcardSpecifier {
			rank += 2
		}
		if x.SourceName != structs.WildcardSpecifier {
			rank++
		}
		if rank > best {
			best, want = rank, x.Action == structs.IntentionActionAllow
		}
	}
	if want {
		verifrt.Assert("C14.tcp.allowed-by-intentions-is-allowed-by-rbac", got)
	} else {
		verifrt.Assert("C14.tcp.denied-by-intentions-is-denied-by-rbac", !got)
	}
	verifrt.Reached("end")
}
