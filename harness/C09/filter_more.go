//go:build verif

package aclfilter

import (
	"github.com/hashicorp/consul/acl"
	"github.com/hashicorp/consul/agent/structs"
	"github.com/hashicorp/consul/internal/verifrt"
	"github.com/hashicorp/consul/types"
)

// C09, further response types: node dumps, per-node service lists, service
// dumps (with and without gateway links), gateway-service mappings,
// intentions, prepared queries (removal and token redaction) and ACL objects
// (removal, secret redaction).

func (vAuthz) IntentionRead(n string, _ *acl.AuthorizerContext) acl.EnforcementDecision {
	return dec(verifrt.UFBool("intentionRead", n))
}
func (vAuthz) PreparedQueryRead(n string, _ *acl.AuthorizerContext) acl.EnforcementDecision {
	return dec(verifrt.UFBool("queryRead", n))
}
func (vAuthz) ACLRead(*acl.AuthorizerContext) acl.EnforcementDecision {
	return dec(verifrt.UFBool("aclRead"))
}
func (vAuthz) ACLWrite(*acl.AuthorizerContext) acl.EnforcementDecision {
	return dec(verifrt.UFBool("aclWrite"))
}

// node dump: nodes filtered by node read; inside a kept node, services and checks by service read
func VerifC09_NodeDump() {
	n := verifrt.Choice("n", 3)
	var dump structs.NodeDump
	nodeReadable := make([]bool, n)
	type inner struct{ svc, chk []bool }
	inners := make([]inner, n)
	total, kept := 0, 0
	for i := 0; i < n; i++ {
		t := "n" + pos(i)
		info := &structs.NodeInfo{Node: vN(t + ".node"), Address: pos(i)}
		nodeReadable[i] = nodeOK(info.Node)
		total++
		if nodeReadable[i] {
			kept++
		}
		ns := verifrt.Choice(t+".services", 3)
		for j := 0; j < ns; j++ {
			svc := &structs.NodeService{ID: pos(j), Service: vN(t + ".s" + pos(j))}
			info.Services = append(info.Services, svc)
			ok := verifrt.UFBool("serviceRead", svc.Service)
			inners[i].svc = append(inners[i].svc, ok)
			if nodeReadable[i] {
				total++
				if ok {
					kept++
				}
			}
		}
		if verifrt.Bool(t + ".check") {
			hc := &structs.HealthCheck{Node: info.Node, CheckID: types.CheckID("c"), ServiceName: ""}
			if verifrt.Bool(t + ".check.service") {
				hc.ServiceName = vN(t + ".check.svc")
			}
			info.Checks = append(info.Checks, hc)
			ok := svcOK(hc.ServiceName)
			inners[i].chk = append(inners[i].chk, ok)
			if nodeReadable[i] {
				total++
				if ok {
					kept++
				}
			}
		}
		dump = append(dump, info)
	}
	resp := &structs.IndexedNodeDump{Dump: dump}
	vFilter().Filter(resp)
	var got []int
	for _, x := range resp.Dump {
		i := unpos(x.Address)
		got = append(got, i)
		var gs []int
		for _, s := range x.Services {
			gs = append(gs, unpos(s.ID))
		}
		var ws []int
		for j, ok := range inners[i].svc {
			if ok {
				ws = append(ws, j)
			}
		}
		verifrt.Assert("C09.node-dump.services-of-kept-node-exactly-readable", len(gs) == len(ws))
		for k := range ws {
			if k < len(gs) {
				verifrt.Assert("C09.node-dump.services-in-order", gs[k] == ws[k])
			}
		}
		wc := 0
		for _, ok := range inners[i].chk {
			if ok {
				wc++
			}
		}
		verifrt.Assert("C09.node-dump.checks-of-kept-node-exactly-readable", len(x.Checks) == wc)
	}
	var want []int
	for i, ok := range nodeReadable {
		if ok {
			want = append(want, i)
		}
	}
	verifrt.Assert("C09.node-dump.exactly-the-readable-nodes", len(got) == len(want))
	for k := range want {
		if k < len(got) {
			verifrt.Assert("C09.node-dump.nodes-in-order", got[k] == want[k])
		}
	}
	verifrt.Assert("C09.node-dump.flag-iff-something-removed", resp.ResultsFilteredByACLs == (kept != total))
	verifrt.Reached("end")
}

// services of one node, as a list
func VerifC09_NodeServiceList() {
	n := vLen("n")
	node := &structs.Node{Node: vN("node")}
	list := structs.NodeServiceList{Node: node}
	readable := make([]bool, n)
	for i := 0; i < n; i++ {
		svc := &structs.NodeService{ID: pos(i), Service: vN("s" + pos(i))}
		list.Services = append(list.Services, svc)
		readable[i] = verifrt.UFBool("serviceRead", svc.Service)
	}
	resp := &structs.IndexedNodeServiceList{NodeServices: list}
	vFilter().Filter(resp)
	if !nodeOK(node.Node) {
		verifrt.Assert("C09.node-service-list.unreadable-node-yields-nothing", resp.NodeServices.Node == nil && len(resp.NodeServices.Services) == 0 && resp.ResultsFilteredByACLs)
		verifrt.Reached("end")
		return
	}
	var got []int
	for _, x := range resp.NodeServices.Services {
		got = append(got, unpos(x.ID))
	}
	vCheckSublist("C09.node-service-list", readable, got, resp.ResultsFilteredByACLs)
	verifrt.Reached("end")
}

// services of one node, as a map keyed by service id
func VerifC09_NodeServices() {
	n := verifrt.Choice("n", 3)
	node := &structs.Node{Node: vN("node")}
	ns := &structs.NodeServices{Node: node, Services: map[string]*structs.NodeService{}}
	var ids []string
	for i := 0; i < n; i++ {
		// (the map is keyed by service id; the filter must decide on the service's name)
		id := "id" + pos(i)
		ns.Services[id] = &structs.NodeService{ID: id, Service: vN("s" + pos(i))}
		ids = append(ids, id)
	}
	names := map[string]string{}
	for id, s := range ns.Services {
		names[id] = s.Service
	}
	resp := &structs.IndexedNodeServices{NodeServices: ns}
	vFilter().Filter(resp)
	if !nodeOK(node.Node) {
		verifrt.Assert("C09.node-services.unreadable-node-yields-nothing", resp.NodeServices == nil && resp.ResultsFilteredByACLs)
		verifrt.Reached("end")
		return
	}
	kept := 0
	for _, id := range ids {
		_, present := resp.NodeServices.Services[id]
		verifrt.Assert("C09.node-services.present-iff-readable", present == verifrt.UFBool("serviceRead", names[id]))
		if present {
			kept++
		}
	}
	verifrt.Assert("C09.node-services.flag-iff-something-removed", resp.ResultsFilteredByACLs == (kept != n))
	verifrt.Reached("end")
}

// gateway service dump (the only producer, Internal.GatewayServiceDump, always sets the gateway link): an element
// needs read on gateway and linked service and, when it carries a node, on the node
func VerifC09_ServiceDump() {
	n := vLen("n")
	var dump structs.ServiceDump
	readable := make([]bool, n)
	for i := 0; i < n; i++ {
		t := "d" + pos(i)
		info := &structs.ServiceInfo{}
		info.GatewayService = &structs.GatewayService{Gateway: structs.NewServiceName(vN(t+".gw"), nil), Service: structs.NewServiceName(vN(t+".linked"), nil), Port: i}
		ok := verifrt.UFBool("serviceRead", info.GatewayService.Gateway.Name) && verifrt.UFBool("serviceRead", info.GatewayService.Service.Name)
		if verifrt.Bool(t + ".with-node") {
			info.Node = &structs.Node{Node: vN(t + ".node")}
			info.Service = &structs.NodeService{ID: pos(i), Service: "x"}
			ok = ok && nodeOK(info.Node.Node)
		}
		info.Checks = structs.HealthChecks{{CheckID: types.CheckID(pos(i))}}
		dump = append(dump, info)
		readable[i] = ok
	}
	resp := &structs.IndexedServiceDump{Dump: dump}
	vFilter().Filter(resp)
	var got []int
	for _, x := range resp.Dump {
		got = append(got, unpos(string(x.Checks[0].CheckID)))
	}
	vCheckSublist("C09.service-dump", readable, got, resp.ResultsFilteredByACLs)
	verifrt.Reached("end")
}

func VerifC09_GatewayServices() {
	n := vLen("n")
	var in structs.GatewayServices
	readable := make([]bool, n)
	for i := 0; i < n; i++ {
		gs := &structs.GatewayService{Gateway: structs.NewServiceName("gw", nil), Service: structs.NewServiceName(vN("g"+pos(i)), nil), Port: i}
		in = append(in, gs)
		readable[i] = verifrt.UFBool("serviceRead", gs.Service.Name)
	}
	resp := &structs.IndexedGatewayServices{Services: in}
	vFilter().Filter(resp)
	var got []int
	for _, x := range resp.Services {
		got = append(got, x.Port)
	}
	vCheckSublist("C09.gateway-services", readable, got, resp.ResultsFilteredByACLs)
	verifrt.Reached("end")
}

// intentions: readable iff the token may read intentions of the source or of the destination
func VerifC09_Intentions() {
	n := vLen("n")
	var in structs.Intentions
	readable := make([]bool, n)
	for i := 0; i < n; i++ {
		x := &structs.Intention{ID: pos(i), SourceNS: "default", DestinationNS: "default", SourceName: vN("i" + pos(i) + ".src"), DestinationName: vN("i" + pos(i) + ".dst")}
		in = append(in, x)
		readable[i] = verifrt.UFBool("intentionRead", x.SourceName) || verifrt.UFBool("intentionRead", x.DestinationName)
	}
	resp := &structs.IndexedIntentions{Intentions: in}
	vFilter().Filter(resp)
	var got []int
	for _, x := range resp.Intentions {
		got = append(got, unpos(x.ID))
	}
	vCheckSublist("C09.intentions", readable, got, resp.ResultsFilteredByACLs)
	verifrt.Reached("end")
}

// prepared queries: without acl:write only named queries the token may read are returned, with the
// token redacted; the flag reports removed named queries only
func VerifC09_PreparedQueries() {
	n := vLen("n")
	var in structs.PreparedQueries
	readable := make([]bool, n)
	named := make([]bool, n)
	hasTok := make([]bool, n)
	for i := 0; i < n; i++ {
		t := "q" + pos(i)
		q := &structs.PreparedQuery{ID: pos(i)}
		if named[i] = verifrt.Bool(t + ".named"); named[i] {
			q.Name = vN(t + ".name")
			verifrt.Assume(q.Name[0] != 0)
		}
		if hasTok[i] = verifrt.Bool(t + ".token"); hasTok[i] {
			q.Token = "secret"
		}
		in = append(in, q)
		readable[i] = named[i] && verifrt.UFBool("queryRead", q.Name)
	}
	orig := append(structs.PreparedQueries{}, in...)
	resp := &structs.IndexedPreparedQueries{Queries: in}
	vFilter().Filter(resp)
	if verifrt.UFBool("aclWrite") {
		verifrt.Assert("C09.prepared-queries.management-sees-everything", len(resp.Queries) == n && !resp.ResultsFilteredByACLs)
		for i := range resp.Queries {
			verifrt.Assert("C09.prepared-queries.management-sees-tokens", resp.Queries[i].Token == orig[i].Token)
		}
		verifrt.Reached("end")
		return
	}
	var got []int
	for _, x := range resp.Queries {
		got = append(got, unpos(x.ID))
		verifrt.Assert("C09.prepared-queries.token-redacted", x.Token == "" || x.Token == RedactedToken)
	}
	var want []int
	removedNamed := false
	for i, ok := range readable {
		if ok {
			want = append(want, i)
		} else if named[i] {
			removedNamed = true
		}
	}
	verifrt.Assert("C09.prepared-queries.exactly-the-readable-queries", len(got) == len(want))
	for k := range want {
		if k < len(got) {
			verifrt.Assert("C09.prepared-queries.in-order", got[k] == want[k])
		}
	}
	verifrt.Assert("C09.prepared-queries.flag-iff-named-query-removed", resp.ResultsFilteredByACLs == removedNamed)
	// the stored objects are not modified by redaction
	for i := range orig {
		verifrt.Assert("C09.prepared-queries.original-untouched", (orig[i].Token == "secret") == hasTok[i])
	}
	verifrt.Reached("end")
}

// ACL objects: nothing without acl:read; secrets only with acl:write; the stored token is not modified
func VerifC09_ACLObjects() {
	tok := &structs.ACLToken{AccessorID: "a", SecretID: "s3cr3t"}
	tokens := structs.ACLTokens{tok}
	policies := structs.ACLPolicies{{ID: "p"}}
	roles := structs.ACLRoles{{ID: "r"}}
	f := vFilter()
	f.Filter(&tokens)
	f.Filter(&policies)
	f.Filter(&roles)
	rd, wr := verifrt.UFBool("aclRead"), verifrt.UFBool("aclWrite")
	if !rd {
		verifrt.Assert("C09.acl-objects.nothing-without-acl-read", len(tokens) == 0 && len(policies) == 0 && len(roles) == 0)
	} else {
		verifrt.Assert("C09.acl-objects.all-with-acl-read", len(tokens) == 1 && len(policies) == 1 && len(roles) == 1)
		if wr {
			verifrt.Assert("C09.acl-objects.secret-with-acl-write", tokens[0].SecretID == "s3cr3t")
		} else {
			verifrt.Assert("C09.acl-objects.secret-redacted-without-acl-write", tokens[0].SecretID == RedactedToken)
		}
	}
	verifrt.Assert("C09.acl-objects.stored-token-untouched", tok.SecretID == "s3cr3t")
	verifrt.Reached("end")
}
