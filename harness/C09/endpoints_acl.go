//go:build verif

package consul

import (
	"strings"

	"github.com/hashicorp/consul/agent/structs"
	"github.com/hashicorp/consul/internal/verifrt"
)

// C09 (RPC layer): the real read endpoints on an ACL-enabled partial Server (default deny), called
// with a token whose policy is resolved by the real ACLResolver into a real policy authorizer:
//
//	key_prefix "a" { policy = "read" }   key "ab" { policy = "deny" }   key "b" { policy = "read" }
//	node "n1" { policy = "read" }        session "n1" { policy = "read" }   service "web" { policy = "read" }
//
// KVS.Get/List/ListKeys with symbolic keys, Session.List, Catalog.ListNodes, Catalog.ServiceNodes and
// Health.NodeChecks return exactly the readable elements, flag ResultsFilteredByACLs exactly when
// something was removed (never for the anonymous token), and refuse a single-key read of an
// unreadable key.

func vC09Readable(k string) bool {
	return (strings.HasPrefix(k, "a") && k != "ab") || k == "b"
}

func VerifC09_EndpointsACL_Setup() any {
	s, be := vPartialServer(true)
	be.policies["a0000000-0000-0000-0000-0000000000a1"] = &structs.ACLPolicy{ID: "a0000000-0000-0000-0000-0000000000a1", Name: "p",
		Rules: `key_prefix "a" { policy = "read" } key "ab" { policy = "deny" } key "b" { policy = "read" } node "n1" { policy = "read" } session "n1" { policy = "read" } service "web" { policy = "read" }`}
	be.policies["a0000000-0000-0000-0000-0000000000a1"].SetHash(true)
	be.tokens["a0000000-0000-0000-0000-0000000000c2"] = &structs.ACLToken{AccessorID: "a0000000-0000-0000-0000-0000000000c1",
		SecretID: "a0000000-0000-0000-0000-0000000000c2", Policies: []structs.ACLTokenPolicyLink{{ID: "a0000000-0000-0000-0000-0000000000a1"}}}
	return s
}

func VerifC09_EndpointsACL(st any) {
	s := st.(*Server)
	store := s.fsm.State()
	const secret = "a0000000-0000-0000-0000-0000000000c2"
	must := func(err error) {
		if err != nil {
			panic(err)
		}
	}
	// keys: two symbolic keys of 1..2 bytes over {a,b}
	var keys []string
	nk := verifrt.Choice("nkeys", 3)
	for i := 0; i < nk; i++ {
		n := 1 + verifrt.Choice("k.len", 2)
		k := verifrt.StrN("k", n)
		for j := 0; j < n; j++ {
			verifrt.Assume(k[j] == 'a' || k[j] == 'b')
		}
		for _, o := range keys {
			verifrt.Assume(o != k)
		}
		keys = append(keys, k)
		must(store.KVSSet(uint64(10+i), &structs.DirEntry{Key: k, Value: []byte{1}}))
	}
	// catalog: n1 (readable) and n2 (not), services web (readable) and db (not), sessions on both
	must(store.EnsureRegistration(20, &structs.RegisterRequest{Node: "n1", Address: "10.0.0.1",
		Service: &structs.NodeService{ID: "web1", Service: "web", Port: 80},
		Check:   &structs.HealthCheck{Node: "n1", CheckID: "c1", Name: "c1", Status: "passing", ServiceID: "web1"}}))
	if verifrt.Bool("unreadable-objects") {
		must(store.EnsureRegistration(21, &structs.RegisterRequest{Node: "n2", Address: "10.0.0.2",
			Service: &structs.NodeService{ID: "web2", Service: "web", Port: 80}}))
		must(store.EnsureRegistration(22, &structs.RegisterRequest{Node: "n1", Address: "10.0.0.1",
			Service: &structs.NodeService{ID: "db1", Service: "db", Port: 81},
			Check:   &structs.HealthCheck{Node: "n1", CheckID: "c2", Name: "c2", Status: "passing", ServiceID: "db1"}}))
		must(store.SessionCreate(23, &structs.Session{ID: "a0000000-0000-0000-0000-0000000000e2", Node: "n2", NodeChecks: []string{}}))
	}
	must(store.SessionCreate(24, &structs.Session{ID: "a0000000-0000-0000-0000-0000000000e1", Node: "n1", NodeChecks: []string{}}))
	unreadable := len(func() []string { _, ns, _ := store.Nodes(nil, nil, ""); var o []string; for _, n := range ns { if n.Node != "n1" { o = append(o, n.Node) } }; return o }()) > 0

	tok := secret
	anonymous := verifrt.Bool("anonymous")
	if anonymous {
		tok = ""
	}
	qo := structs.QueryOptions{Token: tok}
	kv := &KVS{srv: s, logger: s.logger}
	switch verifrt.Choice("endpoint", 6) {
	case 0:
		var r structs.IndexedDirEntries
		err := kv.List(&structs.KeyRequest{Datacenter: "dc1", Key: "", QueryOptions: qo}, &r)
		verifrt.Assert("C09.rpc.kv-list.no-error", err == nil)
		var want []string
		for _, k := range keys {
			if !anonymous && vC09Readable(k) {
				want = append(want, k)
			}
		}
		got := map[string]bool{}
		for _, e := range r.Entries {
			got[e.Key] = true
		}
		ok := len(r.Entries) == len(want)
		for _, k := range want {
			ok = ok && got[k]
		}
		verifrt.Assert("C09.rpc.kv-list.exactly-the-readable-keys", ok)
		verifrt.Assert("C09.rpc.kv-list.flag-iff-something-removed-and-token-presented", r.ResultsFilteredByACLs == (!anonymous && len(want) != len(keys)))
	case 1:
		var r structs.IndexedKeyList
		err := kv.ListKeys(&structs.KeyListRequest{Datacenter: "dc1", Prefix: "", Seperator: "", QueryOptions: qo}, &r)
		verifrt.Assert("C09.rpc.kv-keys.no-error", err == nil)
		n := 0
		for _, k := range keys {
			if !anonymous && vC09Readable(k) {
				n++
			}
		}
		ok := len(r.Keys) == n
		for _, k := range r.Keys {
			ok = ok && vC09Readable(k)
		}
		verifrt.Assert("C09.rpc.kv-keys.exactly-the-readable-keys", ok)
		verifrt.Assert("C09.rpc.kv-keys.flag-iff-something-removed-and-token-presented", r.ResultsFilteredByACLs == (!anonymous && n != len(keys)))
	case 2:
		if len(keys) > 0 {
			var r structs.IndexedDirEntries
			err := kv.Get(&structs.KeyRequest{Datacenter: "dc1", Key: keys[0], QueryOptions: qo}, &r)
			if !anonymous && vC09Readable(keys[0]) {
				verifrt.Assert("C09.rpc.kv-get.readable-key-is-returned", err == nil && len(r.Entries) == 1 && r.Entries[0].Key == keys[0])
			} else {
				verifrt.Assert("C09.rpc.kv-get.unreadable-key-is-refused", err != nil && len(r.Entries) == 0)
			}
		}
	case 3:
		var r structs.IndexedSessions
		err := (&Session{srv: s, logger: s.logger}).List(&structs.SessionSpecificRequest{Datacenter: "dc1", QueryOptions: qo}, &r)
		verifrt.Assert("C09.rpc.session-list.no-error", err == nil)
		ok := true
		for _, x := range r.Sessions {
			ok = ok && x.Node == "n1"
		}
		wantN := 1
		if anonymous {
			wantN = 0
		}
		verifrt.Assert("C09.rpc.session-list.exactly-the-readable-sessions", ok && len(r.Sessions) == wantN)
		verifrt.Assert("C09.rpc.session-list.flag-iff-something-removed-and-token-presented", r.ResultsFilteredByACLs == (!anonymous && unreadable))
	case 4:
		var r structs.IndexedNodes
		err := (&Catalog{srv: s, logger: s.logger}).ListNodes(&structs.DCSpecificRequest{Datacenter: "dc1", QueryOptions: qo}, &r)
		verifrt.Assert("C09.rpc.nodes.no-error", err == nil)
		wantN := 1
		if anonymous {
			wantN = 0
		}
		verifrt.Assert("C09.rpc.nodes.exactly-the-readable-nodes", len(r.Nodes) == wantN && (wantN == 0 || r.Nodes[0].Node == "n1"))
		verifrt.Assert("C09.rpc.nodes.flag-iff-something-removed-and-token-presented", r.ResultsFilteredByACLs == (!anonymous && unreadable))
	case 5:
		var r structs.IndexedHealthChecks
		err := (&Health{srv: s, logger: s.logger}).NodeChecks(&structs.NodeSpecificRequest{Datacenter: "dc1", Node: "n1", QueryOptions: qo}, &r)
		verifrt.Assert("C09.rpc.node-checks.no-error", err == nil)
		ok := true
		for _, c := range r.HealthChecks {
			ok = ok && c.ServiceName == "web"
		}
		wantN := 1
		if anonymous {
			wantN = 0
		}
		verifrt.Assert("C09.rpc.node-checks.exactly-the-readable-checks", ok && len(r.HealthChecks) == wantN)
		verifrt.Assert("C09.rpc.node-checks.flag-iff-something-removed-and-token-presented", r.ResultsFilteredByACLs == (!anonymous && unreadable))
	}
	verifrt.Reached("end")
}
