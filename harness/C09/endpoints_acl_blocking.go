//go:build verif

package consul

import (
	"time"

	"github.com/hashicorp/consul/agent/structs"
	"github.com/hashicorp/consul/internal/verifrt"
)

// C09 (RPC layer, blocking): the filtered flag describes the reply that is delivered, not an
// earlier pass of the same blocking query. A KVS.List / ListKeys / Session.List with the token of
// VerifC09_EndpointsACL is parked on the index of its first read while a write changes what
// there is to filter (the only unreadable key is deleted, or an unreadable key appears, or a
// readable one changes); the delivered reply holds exactly the readable elements of the final
// state and ResultsFilteredByACLs is set iff the final state holds something unreadable.
func VerifC09_BlockingEndpointsACL_Setup() any { return VerifC09_EndpointsACL_Setup() }

func VerifC09_BlockingEndpointsACL(st any) {
	s := st.(*Server)
	store := s.fsm.State()
	const secret = "a0000000-0000-0000-0000-0000000000c2"
	must := func(err error) {
		if err != nil {
			panic(err)
		}
	}
	// keys out of {aa (readable), ab (denied), c (no rule)}
	names := []string{"aa", "ab", "c"}
	have := map[string]bool{}
	idx := uint64(10)
	for _, k := range names {
		if verifrt.Bool("have." + k) {
			idx += 10
			must(store.KVSSet(idx, &structs.DirEntry{Key: k, Value: []byte{1}}))
			have[k] = true
		}
	}
	wkey := names[verifrt.Choice("w.key", len(names))]
	wdel := verifrt.Bool("w.delete")
	widx := idx + 10
	write := func() {
		if wdel {
			must(store.KVSDelete(widx, wkey, nil))
		} else {
			must(store.KVSSet(widx, &structs.DirEntry{Key: wkey, Value: []byte{2}}))
		}
	}
	kv := &KVS{srv: s, logger: s.logger}
	listKeys := verifrt.Bool("list-keys")
	var m uint64
	if listKeys {
		var r structs.IndexedKeyList
		must(kv.ListKeys(&structs.KeyListRequest{Datacenter: "dc1", QueryOptions: structs.QueryOptions{Token: secret}}, &r))
		m = r.Index
	} else {
		var r structs.IndexedDirEntries
		must(kv.List(&structs.KeyRequest{Datacenter: "dc1", QueryOptions: structs.QueryOptions{Token: secret}}, &r))
		m = r.Index
	}
	vWhileBlocked(s, write)
	qo := structs.QueryOptions{Token: secret, MinQueryIndex: m, MaxQueryTime: 2 * time.Second}
	var gotKeys []string
	var flag bool
	if listKeys {
		var r structs.IndexedKeyList
		verifrt.Assert("C09.rpc.blocking.no-error", kv.ListKeys(&structs.KeyListRequest{Datacenter: "dc1", QueryOptions: qo}, &r) == nil)
		gotKeys, flag = r.Keys, r.ResultsFilteredByACLs
	} else {
		var r structs.IndexedDirEntries
		verifrt.Assert("C09.rpc.blocking.no-error", kv.List(&structs.KeyRequest{Datacenter: "dc1", QueryOptions: qo}, &r) == nil)
		for _, e := range r.Entries {
			gotKeys = append(gotKeys, e.Key)
		}
		flag = r.ResultsFilteredByACLs
	}
	// final state
	if wdel {
		delete(have, wkey)
	} else {
		have[wkey] = true
	}
	wantReadable := have["aa"]
	wantFiltered := have["ab"] || have["c"]
	ok := (len(gotKeys) == 1) == wantReadable && (len(gotKeys) == 0) == !wantReadable
	if ok && wantReadable {
		ok = gotKeys[0] == "aa"
	}
	verifrt.Assert("C09.rpc.blocking.exactly-the-readable-keys-of-the-final-state", ok)
	verifrt.Assert("C09.rpc.blocking.flag-describes-the-delivered-reply", flag == wantFiltered)
	verifrt.Reached("end")
}
