//go:build verif

package consul

import (
	"time"

	"github.com/hashicorp/consul/acl"
	"github.com/hashicorp/consul/agent/structs"
	"github.com/hashicorp/consul/internal/verifrt"
)

// C09 (expiry): a token past its expiration time never resolves, whatever the
// backend or cache hands back for it.

type vBackend struct {
	ACLResolverBackend
	id structs.ACLIdentity
}

func (b *vBackend) ResolveIdentityFromToken(token string) (bool, structs.ACLIdentity, error) {
	return true, b.id, nil
}

func VerifC09_ExpiredTokenNeverResolves() {
	expSec := verifrt.I64("expiration.unix")
	verifrt.Assume(expSec > 1_000_000_000 && expSec < 4_000_000_000)
	exp := time.Unix(expSec, 0)
	tok := &structs.ACLToken{AccessorID: "a", SecretID: "s", ExpirationTime: &exp}
	if verifrt.Bool("no-expiration") {
		tok.ExpirationTime = nil
	}
	r := &ACLResolver{backend: &vBackend{id: tok}}
	id, _, err := r.resolveTokenToIdentityAndPolicies("s")
	now := time.Now() // a later reading of the same (non-decreasing) symbolic clock
	id2, _, err2 := r.resolveTokenToIdentityAndRoles("s")
	if tok.ExpirationTime != nil && exp.Before(now) {
		// expired at the latest by the second resolution
		verifrt.Assert("C09.expiry.expired-token-not-resolved-for-roles", id2 == nil && acl.IsErrNotFound(err2))
		verifrt.Reached("expired")
	}
	if err == nil {
		// resolved the first time: it cannot have been expired at that time, i.e. at any
		// earlier clock reading; the clock is non-decreasing so check against `now` is one-sided
		verifrt.Assert("C09.expiry.resolved-identity-is-the-token", id != nil)
		verifrt.Reached("resolved")
	} else {
		verifrt.Assert("C09.expiry.only-not-found-errors", acl.IsErrNotFound(err) && tok.ExpirationTime != nil)
		verifrt.Assert("C09.expiry.rejected-only-if-expired-by-now", exp.Before(now))
		verifrt.Reached("rejected")
	}
	_ = id
}
