//go:build verif

package aclfilter

import (
	"github.com/hashicorp/go-hclog"

	"github.com/hashicorp/consul/acl"
	"github.com/hashicorp/consul/agent/structs"
	"github.com/hashicorp/consul/internal/verifrt"
	"github.com/hashicorp/consul/types"
)

// C09: the ACL filter removes exactly the elements the token may not read,
// keeps the others in order, and flags filtering exactly when something was
// removed. The authorizer is an arbitrary but consistent predicate of the name
// (uninterpreted functions), so the verdict covers every authorizer.

type vAuthz struct{ acl.Authorizer }

func dec(b bool) acl.EnforcementDecision {
	if b {
		return acl.Allow
	}
	return acl.Deny
}

func (vAuthz) NodeRead(n string, _ *acl.AuthorizerContext) acl.EnforcementDecision {
	return dec(verifrt.UFBool("nodeRead", n))
}
func (vAuthz) ServiceRead(n string, _ *acl.AuthorizerContext) acl.EnforcementDecision {
	return dec(verifrt.UFBool("serviceRead", n))
}
func (vAuthz) SessionRead(n string, _ *acl.AuthorizerContext) acl.EnforcementDecision {
	return dec(verifrt.UFBool("sessionRead", n))
}

func vFilter() *Filter { return New(vAuthz{}, hclog.NewNullLogger()) }

func nodeOK(n string) bool { return verifrt.UFBool("nodeRead", n) }
func svcOK(n string) bool  { return n == "" || verifrt.UFBool("serviceRead", n) }

func vN(tag string) string { return verifrt.StrN(tag, 1) }

func vLen(tag string) int {
	n := 3
	if verifrt.Thorough() {
		n = 4
	}
	return verifrt.Choice(tag, n+1)
}

// vCheckSublist asserts that got is exactly the readable elements of the
// original list, in order (ids are positions in the original list).
func vCheckSublist(pfx string, readable []bool, gotIDs []int, flag bool) {
	var want []int
	for i, r := range readable {
		if r {
			want = append(want, i)
		}
	}
	verifrt.Assert(pfx+".nothing-unreadable-returned-nothing-readable-dropped", len(gotIDs) == len(want))
	for i := range want {
		if i < len(gotIDs) {
			verifrt.Assert(pfx+".exactly-the-readable-elements-in-order", gotIDs[i] == want[i])
		}
	}
	verifrt.Assert(pfx+".flag-iff-something-removed", flag == (len(want) != len(readable)))
}

func pos(i int) string { return string(rune('0' + i)) }
func unpos(s string) int { return int(s[0] - '0') }

func VerifC09_HealthChecks() {
	n := vLen("n")
	var in structs.HealthChecks
	readable := make([]bool, n)
	for i := 0; i < n; i++ {
		t := "c" + pos(i)
		hc := &structs.HealthCheck{Node: vN(t + ".node"), CheckID: types.CheckID(pos(i))}
		if verifrt.Bool(t + ".hasService") {
			hc.ServiceName = vN(t + ".service")
		}
		in = append(in, hc)
		readable[i] = nodeOK(hc.Node) && svcOK(hc.ServiceName)
	}
	resp := &structs.IndexedHealthChecks{HealthChecks: in}
	vFilter().Filter(resp)
	var got []int
	for _, hc := range resp.HealthChecks {
		got = append(got, unpos(string(hc.CheckID)))
	}
	vCheckSublist("C09.health-checks", readable, got, resp.ResultsFilteredByACLs)
	verifrt.Reached("end")
}

func VerifC09_ServiceNodes() {
	n := vLen("n")
	var in structs.ServiceNodes
	readable := make([]bool, n)
	for i := 0; i < n; i++ {
		t := "s" + pos(i)
		sn := &structs.ServiceNode{Node: vN(t + ".node"), ServiceID: pos(i), ServiceName: vN(t + ".service")}
		in = append(in, sn)
		readable[i] = nodeOK(sn.Node) && svcOK(sn.ServiceName)
	}
	resp := &structs.IndexedServiceNodes{ServiceNodes: in}
	vFilter().Filter(resp)
	var got []int
	for _, x := range resp.ServiceNodes {
		got = append(got, unpos(x.ServiceID))
	}
	vCheckSublist("C09.service-nodes", readable, got, resp.ResultsFilteredByACLs)
	verifrt.Reached("end")
}

func VerifC09_Nodes() {
	n := vLen("n")
	var in structs.Nodes
	readable := make([]bool, n)
	for i := 0; i < n; i++ {
		nd := &structs.Node{Node: vN("n" + pos(i)), Datacenter: pos(i)}
		in = append(in, nd)
		readable[i] = nodeOK(nd.Node)
	}
	resp := &structs.IndexedNodes{Nodes: in}
	vFilter().Filter(resp)
	var got []int
	for _, x := range resp.Nodes {
		got = append(got, unpos(x.Datacenter))
	}
	vCheckSublist("C09.nodes", readable, got, resp.ResultsFilteredByACLs)
	verifrt.Reached("end")
}

func vCSN(t string, i int) (structs.CheckServiceNode, bool) {
	c := structs.CheckServiceNode{
		Node:    &structs.Node{Node: vN(t + ".node")},
		Service: &structs.NodeService{ID: pos(i), Service: vN(t + ".service")},
	}
	return c, nodeOK(c.Node.Node) && verifrt.UFBool("serviceRead", c.Service.Service)
}

func VerifC09_CheckServiceNodes() {
	n := vLen("n")
	var in structs.CheckServiceNodes
	readable := make([]bool, n)
	for i := 0; i < n; i++ {
		c, ok := vCSN("x"+pos(i), i)
		in = append(in, c)
		readable[i] = ok
	}
	resp := &structs.IndexedCheckServiceNodes{Nodes: in}
	vFilter().Filter(resp)
	var got []int
	for _, x := range resp.Nodes {
		got = append(got, unpos(x.Service.ID))
	}
	vCheckSublist("C09.check-service-nodes", readable, got, resp.ResultsFilteredByACLs)
	verifrt.Reached("end")
}

// two datacenters, each with its own list
func VerifC09_DatacenterCheckServiceNodes() {
	resp := &structs.DatacenterIndexedCheckServiceNodes{DatacenterNodes: map[string]structs.CheckServiceNodes{}}
	readable := map[string][]bool{}
	total, kept := 0, 0
	for _, dc := range []string{"dc1", "dc2"} {
		n := verifrt.Choice(dc+".n", 3)
		var in structs.CheckServiceNodes
		r := make([]bool, n)
		for i := 0; i < n; i++ {
			c, ok := vCSN(dc+".x"+pos(i), i)
			in = append(in, c)
			r[i] = ok
			total++
			if ok {
				kept++
			}
		}
		if n > 0 {
			resp.DatacenterNodes[dc] = in
		}
		readable[dc] = r
	}
	vFilter().Filter(resp)
	for _, dc := range []string{"dc1", "dc2"} {
		var got []int
		for _, x := range resp.DatacenterNodes[dc] {
			got = append(got, unpos(x.Service.ID))
		}
		var want []int
		for i, ok := range readable[dc] {
			if ok {
				want = append(want, i)
			}
		}
		verifrt.Assert("C09.datacenter-nodes.nothing-unreadable-returned-nothing-readable-dropped", len(got) == len(want))
		for i := range want {
			if i < len(got) {
				verifrt.Assert("C09.datacenter-nodes.exactly-the-readable-elements-in-order", got[i] == want[i])
			}
		}
		_, present := resp.DatacenterNodes[dc]
		verifrt.Assert("C09.datacenter-nodes.empty-datacenter-dropped", present == (len(want) > 0))
	}
	verifrt.Assert("C09.datacenter-nodes.flag-iff-something-removed", resp.ResultsFilteredByACLs == (kept != total))
	verifrt.Reached("end")
}

func VerifC09_Sessions() {
	n := vLen("n")
	var in structs.Sessions
	readable := make([]bool, n)
	for i := 0; i < n; i++ {
		se := &structs.Session{ID: pos(i), Node: vN("s" + pos(i) + ".node")}
		in = append(in, se)
		readable[i] = verifrt.UFBool("sessionRead", se.Node)
	}
	resp := &structs.IndexedSessions{Sessions: in}
	vFilter().Filter(resp)
	var got []int
	for _, x := range resp.Sessions {
		got = append(got, unpos(x.ID))
	}
	vCheckSublist("C09.sessions", readable, got, resp.ResultsFilteredByACLs)
	verifrt.Reached("end")
}

func VerifC09_Coordinates() {
	n := vLen("n")
	var in structs.Coordinates
	readable := make([]bool, n)
	for i := 0; i < n; i++ {
		c := &structs.Coordinate{Node: vN("c" + pos(i) + ".node"), Segment: pos(i)}
		in = append(in, c)
		readable[i] = nodeOK(c.Node)
	}
	resp := &structs.IndexedCoordinates{Coordinates: in}
	vFilter().Filter(resp)
	var got []int
	for _, x := range resp.Coordinates {
		got = append(got, unpos(x.Segment))
	}
	vCheckSublist("C09.coordinates", readable, got, resp.ResultsFilteredByACLs)
	verifrt.Reached("end")
}

// service map: names are the keys
func VerifC09_Services() {
	n := verifrt.Choice("n", 3)
	in := structs.Services{}
	var names []string
	for i := 0; i < n; i++ {
		nm := vN("svc" + pos(i))
		for _, o := range names {
			verifrt.Assume(o != nm)
		}
		names = append(names, nm)
		in[nm] = []string{pos(i)}
	}
	resp := &structs.IndexedServices{Services: in}
	vFilter().Filter(resp)
	kept := 0
	for _, nm := range names {
		_, present := resp.Services[nm]
		verifrt.Assert("C09.services.present-iff-readable", present == verifrt.UFBool("serviceRead", nm))
		if present {
			kept++
		}
	}
	verifrt.Assert("C09.services.no-extra-entries", len(resp.Services) == kept)
	verifrt.Assert("C09.services.flag-iff-something-removed", resp.ResultsFilteredByACLs == (kept != n))
	verifrt.Reached("end")
}

func vServiceList(tag string, n int) (structs.ServiceList, []bool) {
	var in structs.ServiceList
	r := make([]bool, n)
	for i := 0; i < n; i++ {
		sn := structs.ServiceName{Name: vN(tag + pos(i))}
		in = append(in, sn)
		r[i] = verifrt.UFBool("serviceRead", sn.Name)
	}
	return in, r
}

func vSameNames(got structs.ServiceList, in structs.ServiceList, readable []bool) bool {
	k := 0
	for i, r := range readable {
		if r {
			if k >= len(got) || got[k].Name != in[i].Name {
				return false
			}
			k++
		}
	}
	return k == len(got)
}

func VerifC09_ServiceList() {
	n := vLen("n")
	in, readable := vServiceList("s", n)
	orig := append(structs.ServiceList{}, in...)
	resp := &structs.IndexedServiceList{Services: in}
	vFilter().Filter(resp)
	kept := 0
	for _, r := range readable {
		if r {
			kept++
		}
	}
	verifrt.Assert("C09.service-list.exactly-the-readable-elements-in-order", vSameNames(resp.Services, orig, readable))
	verifrt.Assert("C09.service-list.flag-iff-something-removed", resp.ResultsFilteredByACLs == (kept != n))
	verifrt.Reached("end")
}

// exported services per peer: the flag must reflect removals for any peer,
// whatever the map iteration order
func VerifC09_ExportedServiceList() {
	verifrt.PermuteMaps(true)
	resp := &structs.IndexedExportedServiceList{Services: map[string]structs.ServiceList{}}
	orig := map[string]structs.ServiceList{}
	readable := map[string][]bool{}
	total, kept := 0, 0
	for _, peer := range []string{"peerA", "peerB"} {
		n := verifrt.Choice(peer+".n", 3)
		in, r := vServiceList(peer+".s", n)
		if n > 0 {
			resp.Services[peer] = in
		}
		orig[peer] = append(structs.ServiceList{}, in...)
		readable[peer] = r
		for _, ok := range r {
			total++
			if ok {
				kept++
			}
		}
	}
	vFilter().Filter(resp)
	verifrt.PermuteMaps(false)
	for _, peer := range []string{"peerA", "peerB"} {
		verifrt.Assert("C09.exported-services.exactly-the-readable-elements-in-order", vSameNames(resp.Services[peer], orig[peer], readable[peer]))
	}
	verifrt.Assert("C09.exported-services.flag-iff-something-removed", resp.ResultsFilteredByACLs == (kept != total))
	verifrt.Reached("end")
}
