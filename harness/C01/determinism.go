//go:build verif

package state

import (
	"reflect"
	"time"

	"github.com/hashicorp/serf/coordinate"

	"github.com/hashicorp/consul/agent/netutil"
	"github.com/hashicorp/consul/agent/structs"
	"github.com/hashicorp/consul/api"
	"github.com/hashicorp/consul/internal/verifrt"
	"github.com/hashicorp/consul/proto/private/pbpeering"
	"github.com/hashicorp/consul/types"
)

// C01: two replicas applying the same commands from the same state end with
// identical replicated tables and return identical results, whatever the wall
// clock or iteration order. 2-safety by self-composition: the same command
// sequence is applied to two stores; the second run gets an independent
// symbolic clock (every time.Now() is a fresh solver variable) and, where
// maps are iterated, every iteration order.

var vReplicatedTables = []string{tableIndex, tableNodes, tableServices, tableChecks, tableKVs, tableTombstones, tableSessions,
	tableSessionChecks, tableConnectCARoots, tableConnectCAConfig, tableCoordinates, tableConfigEntries, "autopilot-config",
	tableServiceVirtualIPs, tableFreeVirtualIPs, tableKindServiceNames, tableSystemMetadata,
	tableACLTokens, tableACLPolicies, tableACLRoles}

type vCmdResult struct {
	ok  bool
	err bool
	msg string // the error text is part of the result a client sees
	n   uint64
	ls  []string
}

func vSameState(a, b *Store) bool {
	for _, t := range vReplicatedTables {
		if !reflect.DeepEqual(vDump(a, t), vDump(b, t)) {
			return false
		}
	}
	return true
}

// vApplyLog applies the command sequence chosen by `kind` with the given symbolic arguments.
type vLogArgs struct {
	kind       int
	idx        uint64
	key        string
	val        byte
	lockDelay  time.Duration
	rootID     string
	cidx       uint64
	expiry     int64 // a token's expiration time (unix seconds)
	flags      int   // option bits of the ACL commands
	perm       bool // this replica iterates its maps in an arbitrary order
}

func vApplyLog(s *Store, a vLogArgs) []vCmdResult {
	var out []vCmdResult
	rec := func(ok bool, err error, n uint64) {
		r := vCmdResult{ok: ok, err: err != nil, n: n}
		if err != nil {
			r.msg = err.Error()
		}
		out = append(out, r)
	}
	if a.perm && a.kind != 7 {
		verifrt.PermuteMaps(true)
		defer verifrt.PermuteMaps(false)
	}
	switch a.kind {
	case 0: // CA roots: set, then rotate the active root out
		ok, err := s.CARootSetCAS(a.idx, 0, []*structs.CARoot{{ID: a.rootID, Name: "x", Active: true}})
		rec(ok, err, 0)
		ok, err = s.CARootSetCAS(a.idx+1, a.cidx, []*structs.CARoot{{ID: a.rootID, Name: "x", Active: false}, {ID: "y" + a.rootID, Name: "y", Active: true}})
		rec(ok, err, 0)
	case 1: // node, session with lock-delay, lock, destroy
		rec(true, s.EnsureNode(a.idx, &structs.Node{Node: "n1", Address: "10.0.0.1"}), 0)
		rec(true, s.SessionCreate(a.idx+1, &structs.Session{ID: vSessA, Node: "n1", LockDelay: a.lockDelay, NodeChecks: []string{}}), 0)
		ok, err := s.KVSLock(a.idx+2, &structs.DirEntry{Key: a.key, Value: []byte{a.val}, Session: vSessA})
		rec(ok, err, 0)
		rec(true, s.SessionDestroy(a.idx+3, vSessA, nil), 0)
		ok, err = s.KVSSetCAS(a.idx+4, &structs.DirEntry{Key: a.key, Value: []byte{a.val + 1}, RaftIndex: structs.RaftIndex{ModifyIndex: a.cidx}})
		rec(ok, err, 0)
	case 2: // transaction with several KV verbs
		_, errs := s.TxnRW(a.idx, structs.TxnOps{
			{KV: &structs.TxnKVOp{Verb: api.KVSet, DirEnt: structs.DirEntry{Key: a.key, Value: []byte{a.val}}}},
			{KV: &structs.TxnKVOp{Verb: api.KVSet, DirEnt: structs.DirEntry{Key: a.key + "b", Value: []byte{a.val}}}},
			{KV: &structs.TxnKVOp{Verb: api.KVDeleteTree, DirEnt: structs.DirEntry{Key: a.key}}},
			{KV: &structs.TxnKVOp{Verb: api.KVSet, DirEnt: structs.DirEntry{Key: "z", Value: []byte{a.val}}}},
		})
		rec(len(errs) == 0, nil, uint64(len(errs)))
	case 3: // registration with service and checks, critical check, deregistration
		rec(true, s.EnsureRegistration(a.idx, &structs.RegisterRequest{Node: "n1", Address: "10.0.0.1",
			Service: &structs.NodeService{ID: "web1", Service: "web", Port: 80, Tags: []string{"a", "b"}, Meta: map[string]string{"k1": "v", "k2": "w"}},
			Checks:  structs.HealthChecks{{Node: "n1", CheckID: "c1", ServiceID: "web1", Status: api.HealthPassing}, {Node: "n1", CheckID: "c2", Status: api.HealthPassing}}}), 0)
		rec(true, s.EnsureCheck(a.idx+1, &structs.HealthCheck{Node: "n1", CheckID: "c1", ServiceID: "web1", Status: api.HealthCritical}), 0)
		rec(true, s.DeleteNode(a.idx+2, "n1", nil, ""), 0)
	case 4: // coordinates, autopilot, system metadata
		rec(true, s.EnsureNode(a.idx, &structs.Node{Node: "n1", Address: "10.0.0.1"}), 0)
		rec(true, s.CoordinateBatchUpdate(a.idx+1, structs.Coordinates{{Node: "n1", Coord: coordinate.NewCoordinate(coordinate.DefaultConfig())}}), 0)
		rec(true, s.AutopilotSetConfig(a.idx+2, &structs.AutopilotConfig{MaxTrailingLogs: uint64(a.val)}), 0)
		ok, err := s.AutopilotCASConfig(a.idx+3, a.cidx, &structs.AutopilotConfig{MaxTrailingLogs: 7})
		rec(ok, err, 0)
		rec(true, s.SystemMetadataSet(a.idx+4, &structs.SystemMetadataEntry{Key: "k" + a.key, Value: "v"}), 0)
		n, err := s.CAIncrementProviderSerialNumber(a.idx + 5)
		rec(true, err, n)
	case 5: // a session bound to several checks, some of them critical or not registered: rejected with the same error everywhere
		rec(true, s.EnsureNode(a.idx, &structs.Node{Node: "n1", Address: "10.0.0.1"}), 0)
		st := func(critical bool) string {
			if critical {
				return api.HealthCritical
			}
			return api.HealthPassing
		}
		rec(true, s.EnsureCheck(a.idx+1, &structs.HealthCheck{Node: "n1", CheckID: "c1", Status: st(a.val&1 == 1)}), 0)
		rec(true, s.EnsureCheck(a.idx+2, &structs.HealthCheck{Node: "n1", CheckID: "c2", Status: st(a.val&2 == 2)}), 0)
		rec(true, s.SessionCreate(a.idx+3, &structs.Session{ID: vSessA, Node: "n1", NodeChecks: []string{"c1", "c2"}, Checks: []types.CheckID{"c3"}}), 0)
		rec(true, s.SessionCreate(a.idx+4, &structs.Session{ID: vSessA, Node: "n1", NodeChecks: []string{"c2", "c1"}}), 0)
	case 6: // manual virtual IPs moved from two services to a third: the list of services they were taken from
		// (the second service is either another local service or the first one's namesake imported from a peer)
		rec(true, s.SystemMetadataSet(a.idx, &structs.SystemMetadataEntry{Key: structs.SystemMetadataVirtualIPsEnabled, Value: "true"}), 0)
		second := structs.PeeredServiceName{ServiceName: structs.NewServiceName("b", nil)}
		if a.val&1 == 1 {
			second = structs.PeeredServiceName{ServiceName: structs.NewServiceName("a", nil), Peer: "p1"}
		}
		rec(true, s.PeeringWrite(a.idx+1, &pbpeering.PeeringWriteRequest{Peering: &pbpeering.Peering{Name: "p1", ID: "9e650110-ac74-4c5a-a6a8-9348b2bed4e9"}}), 0)
		for i, name := range []string{"a", "c"} {
			rec(true, s.EnsureRegistration(a.idx+2+uint64(i), &structs.RegisterRequest{Node: "n1", Address: "10.0.0.1",
				Service: &structs.NodeService{ID: name, Service: name, Port: 80, Connect: structs.ServiceConnect{Native: true}}}), 0)
		}
		rec(true, s.EnsureRegistration(a.idx+4, &structs.RegisterRequest{Node: "n9", Address: "10.0.0.9", PeerName: second.Peer,
			Service: &structs.NodeService{ID: second.ServiceName.Name, Service: second.ServiceName.Name, Port: 80, PeerName: second.Peer,
				Connect: structs.ServiceConnect{Native: true}}}), 0)
		psn := func(n string) structs.PeeredServiceName { return structs.PeeredServiceName{ServiceName: structs.NewServiceName(n, nil)} }
		ok, _, err := s.AssignManualServiceVIPs(a.idx+5, psn("a"), []string{"1.1.1.1"})
		rec(ok, err, 0)
		ok, _, err = s.AssignManualServiceVIPs(a.idx+6, second, []string{"2.2.2.2"})
		rec(ok, err, 0)
		ok, from, err := s.AssignManualServiceVIPs(a.idx+7, psn("c"), []string{"1.1.1.1", "2.2.2.2"})
		rec(ok, err, uint64(len(from)))
		for _, f := range from {
			out[len(out)-1].ls = append(out[len(out)-1].ls, f.Peer+"/"+f.ServiceName.Name)
		}
	case 7: // a config entry write that two stored chains refuse: every replica answers with the same error
		ens := func(i uint64, e structs.ConfigEntry) error {
			if err := e.Normalize(); err != nil {
				return err
			}
			if err := e.Validate(); err != nil {
				return err
			}
			return s.EnsureConfigEntry(a.idx+i, e)
		}
		for i, n := range []string{"main", "next", "other"} {
			rec(true, ens(uint64(i), &structs.ServiceConfigEntry{Kind: structs.ServiceDefaults, Name: n, Protocol: "http"}), 0)
		}
		rec(true, ens(3, &structs.ServiceSplitterConfigEntry{Kind: structs.ServiceSplitter, Name: "main", Splits: []structs.ServiceSplit{{Weight: 100, Service: "other"}}}), 0)
		rec(true, ens(4, &structs.ServiceSplitterConfigEntry{Kind: structs.ServiceSplitter, Name: "next", Splits: []structs.ServiceSplit{{Weight: 100, Service: "other"}}}), 0)
		// (arbitrary map order in the service-graph validation of the refused write only: config entry writes
		// range over dozens of small maps and their orders multiply)
		if a.perm {
			verifrt.PermuteMapsIn("validateProposedConfigEntryInServiceGraph")
		}
		rec(true, ens(5, &structs.ServiceConfigEntry{Kind: structs.ServiceDefaults, Name: "other", Protocol: "tcp"}), 0)
		verifrt.PermuteMaps(false)
	case 8: // ACL policy, role and token sets (written by a client or by replication), token with an expiration time, deletes
		pol := &structs.ACLPolicy{ID: "a0000000-0000-0000-0000-0000000000a1", Name: "p-" + a.key, Rules: ""}
		rec(true, s.ACLPolicyBatchSet(a.idx, structs.ACLPolicies{pol}), 0)
		role := &structs.ACLRole{ID: "a0000000-0000-0000-0000-0000000000b1", Name: "r-" + a.key,
			Policies: []structs.ACLRolePolicyLink{{ID: pol.ID}}}
		rec(true, s.ACLRoleBatchSet(a.idx+1, structs.ACLRoles{role}, a.flags&1 != 0), 0)
		exp := time.Unix(a.expiry, 0)
		tok := &structs.ACLToken{AccessorID: "a0000000-0000-0000-0000-0000000000c1", SecretID: "a0000000-0000-0000-0000-0000000000c2",
			Description: a.key, Policies: []structs.ACLTokenPolicyLink{{ID: pol.ID}}, Roles: []structs.ACLTokenRoleLink{{ID: role.ID}},
			Local: a.flags&2 != 0}
		if a.flags&4 != 0 {
			tok.ExpirationTime = &exp
		}
		tok2 := &structs.ACLToken{AccessorID: "a0000000-0000-0000-0000-0000000000d1", SecretID: "a0000000-0000-0000-0000-0000000000d2",
			Policies: []structs.ACLTokenPolicyLink{{ID: "a0000000-0000-0000-0000-0000000000ff"}}} // a link to a policy that does not exist
		opts := ACLTokenSetOptions{CAS: a.flags&8 != 0, AllowMissingPolicyAndRoleIDs: a.flags&16 != 0, FromReplication: a.flags&32 != 0}
		tok.ModifyIndex = a.cidx
		rec(true, s.ACLTokenBatchSet(a.idx+2, structs.ACLTokens{tok, tok2}, opts), 0)
		_, got, err := s.ACLTokenGetByAccessor(nil, tok.AccessorID, nil)
		rec(got != nil, err, 0)
		rec(true, s.ACLPolicyBatchDelete(a.idx+3, []string{pol.ID}), 0)
		rec(true, s.ACLTokenBatchDelete(a.idx+4, []string{tok2.AccessorID}), 0)
	}
	return out
}

func VerifC01_SameLogSameState() {
	netutil.GetAgentBindAddrFunc = netutil.GetMockGetAgentBindAddrFunc("0.0.0.0")
	a := vLogArgs{kind: verifrt.Choice("log", 9), expiry: verifrt.I64("expiry"), idx: verifrt.U64("idx"), key: vKey("key", 1), val: verifrt.U8("val"),
		lockDelay: time.Duration(verifrt.Choice("lockdelay", 2)) * 15 * time.Second, rootID: verifrt.StrN("root", 1), cidx: verifrt.U64("cidx")}
	verifrt.Assume(a.idx >= 1 && a.idx < 1<<62)
	verifrt.Assume(a.expiry > 1_000_000_000 && a.expiry < 4_000_000_000)
	if a.kind == 8 {
		a.flags = verifrt.Choice("acl.flags", 64)
	}
	// names that pass through lower-casing indexers are ASCII (the engine does not model Unicode case mapping)
	verifrt.Assume(a.rootID[0] < 0x80 && a.key[0] < 0x80)
	r1 := NewStateStore(nil)
	r2 := NewStateStore(nil)
	// native replay only: the real code reads the real clock, so an instant carried by the command (the
	// token's expiration time) is placed relative to the real clock as the model placed it relative to its
	// symbolic readings: before all of them, after all of them, or between the two replicas' applies
	wait := time.Duration(0)
	if !verifrt.Symbolic() {
		rs := verifrt.ClockReadings()
		if len(rs) > 0 {
			lo, hi := rs[0], rs[len(rs)-1]
			switch {
			case a.expiry <= lo:
				a.expiry = time.Now().Unix() - 3600
			case a.expiry > hi:
				a.expiry = time.Now().Unix() + 3600
			default:
				a.expiry = time.Now().Unix() + 2
				wait = 3 * time.Second
			}
		}
	}
	res1 := vApplyLog(r1, a)
	time.Sleep(wait)
	a.perm = true // the other replica may iterate its maps in any order
	res2 := vApplyLog(r2, a)
	verifrt.Assert("C01.same-results", reflect.DeepEqual(res1, res2))
	verifrt.Assert("C01.same-replicated-state", vSameState(r1, r2))
	verifrt.Reached("end")
}
