//go:build verif

package fsm

import (
	"reflect"

	"github.com/hashicorp/go-hclog"
	"github.com/hashicorp/raft"

	"github.com/hashicorp/consul/agent/consul/state"
	"github.com/hashicorp/consul/agent/netutil"
	"github.com/hashicorp/consul/agent/structs"
	"github.com/hashicorp/consul/api"
	raftstorage "github.com/hashicorp/consul/internal/storage/raft"
	"github.com/hashicorp/consul/internal/verifrt"
)

// C01 at the FSM: the same log entries applied through FSM.Apply (type
// dispatch and the per-command apply functions) on two fresh FSMs give the
// same results - including the text of errors, in which a printed address is
// arbitrary per process - and the same tables. Under the engine the msgpack
// decoding of a log entry is an ideal codec (the typed request is handed
// over); natively the real encoding is used.

type vLogEntry struct {
	t   structs.MessageType
	req any
}

var vC01Tape []vLogEntry

func vC01FSM() *FSM {
	backend, err := raftstorage.NewBackend(vRaftHandle{}, hclog.NewNullLogger())
	if err != nil {
		panic(err)
	}
	return NewFromDeps(Deps{Logger: hclog.NewNullLogger(), StorageBackend: backend,
		NewStateStore: func() *state.Store { return state.NewStateStore(nil) }})
}

func vC01Encode(i int, e vLogEntry) []byte {
	if verifrt.Symbolic() {
		return []byte{byte(e.t), byte(i)}
	}
	buf, err := structs.Encode(e.t, e.req)
	if err != nil {
		panic(err)
	}
	return buf
}

type vApplyResult struct {
	isErr bool
	msg   string
	val   any
}

func vC01Apply(f *FSM, log []vLogEntry, idx uint64) []vApplyResult {
	var out []vApplyResult
	for i, e := range log {
		r := f.Apply(&raft.Log{Index: idx + uint64(i), Type: raft.LogCommand, Data: vC01Encode(i, e)})
		if err, ok := r.(error); ok && err != nil {
			out = append(out, vApplyResult{isErr: true, msg: err.Error()})
		} else {
			out = append(out, vApplyResult{val: r})
		}
	}
	return out
}

func VerifC01_FSMApply() {
	netutil.GetAgentBindAddrFunc = netutil.GetMockGetAgentBindAddrFunc("0.0.0.0")
	var log []vLogEntry
	add := func(t structs.MessageType, req any) { log = append(log, vLogEntry{t, req}) }
	key := "k" + verifrt.StrN("key", 1)
	verifrt.Assume(key[1] != 0)
	switch verifrt.Choice("log", 4) {
	case 0: // registration, check update, deregistration of something that is not there
		add(structs.RegisterRequestType, &structs.RegisterRequest{Datacenter: "dc1", Node: "n1", Address: "10.0.0.1",
			Service: &structs.NodeService{ID: "web1", Service: "web", Port: 80, Meta: map[string]string{"a": "1", "b": "2"}},
			Check:   &structs.HealthCheck{Node: "n1", CheckID: "c1", ServiceID: "web1", Status: api.HealthPassing}})
		add(structs.DeregisterRequestType, &structs.DeregisterRequest{Datacenter: "dc1", Node: "n1", ServiceID: "nope"})
		add(structs.DeregisterRequestType, &structs.DeregisterRequest{Datacenter: "dc1", Node: "n1"})
	case 1: // KV: set, cas with a symbolic index, lock without a session, an unknown verb
		add(structs.KVSRequestType, &structs.KVSRequest{Datacenter: "dc1", Op: api.KVSet, DirEnt: structs.DirEntry{Key: key, Value: []byte{verifrt.U8("val")}}})
		add(structs.KVSRequestType, &structs.KVSRequest{Datacenter: "dc1", Op: api.KVCAS,
			DirEnt: structs.DirEntry{Key: key, Value: []byte{1}, RaftIndex: structs.RaftIndex{ModifyIndex: verifrt.U64("cidx")}}})
		add(structs.KVSRequestType, &structs.KVSRequest{Datacenter: "dc1", Op: api.KVLock, DirEnt: structs.DirEntry{Key: key, Session: "missing"}})
		add(structs.KVSRequestType, &structs.KVSRequest{Datacenter: "dc1", Op: "no-such-verb", DirEnt: structs.DirEntry{Key: key}})
	case 2: // sessions: for a node that does not exist, then for one that does, then destroyed
		add(structs.SessionRequestType, &structs.SessionRequest{Datacenter: "dc1", Op: structs.SessionCreate,
			Session: structs.Session{ID: "aaaaaaaa-aaaa-aaaa-aaaa-aaaaaaaaaaaa", Node: "n1", NodeChecks: []string{}}})
		add(structs.RegisterRequestType, &structs.RegisterRequest{Datacenter: "dc1", Node: "n1", Address: "10.0.0.1"})
		add(structs.SessionRequestType, &structs.SessionRequest{Datacenter: "dc1", Op: structs.SessionCreate,
			Session: structs.Session{ID: "aaaaaaaa-aaaa-aaaa-aaaa-aaaaaaaaaaaa", Node: "n1", NodeChecks: []string{}}})
		add(structs.SessionRequestType, &structs.SessionRequest{Datacenter: "dc1", Op: structs.SessionDestroy,
			Session: structs.Session{ID: "aaaaaaaa-aaaa-aaaa-aaaa-aaaaaaaaaaaa"}})
	case 3: // config entries: upsert, an operation this version does not know, delete
		e := func() structs.ConfigEntry {
			return &structs.ServiceConfigEntry{Kind: structs.ServiceDefaults, Name: "web", Protocol: "http"}
		}
		add(structs.ConfigEntryRequestType, &structs.ConfigEntryRequest{Datacenter: "dc1", Op: structs.ConfigEntryUpsert, Entry: e()})
		add(structs.ConfigEntryRequestType, &structs.ConfigEntryRequest{Datacenter: "dc1", Op: "upsert-if-newer", Entry: e()})
		add(structs.ConfigEntryRequestType, &structs.ConfigEntryRequest{Datacenter: "dc1", Op: structs.ConfigEntryDelete, Entry: e()})
	}
	if verifrt.Symbolic() {
		vC01Tape = log
		verifrt.Replace("github.com/hashicorp/consul/agent/structs.Decode", func(buf []byte, out interface{}) error {
			// buf is the entry without its type byte: the position of the request in the log
			if !verifrt.CopyInto(out, verifrt.DeepCopy(vC01Tape[int(buf[0])].req)) {
				panic("ideal codec: request type mismatch")
			}
			return nil
		})
	}
	idx := verifrt.U64("idx")
	verifrt.Assume(idx >= 1 && idx < 1<<62)
	f1, f2 := vC01FSM(), vC01FSM()
	r1 := vC01Apply(f1, log, idx)
	verifrt.PermuteMaps(true)
	r2 := vC01Apply(f2, log, idx)
	verifrt.PermuteMaps(false)
	verifrt.Assert("C01.fsm.same-results", reflect.DeepEqual(r1, r2))
	a, b := vAllTables(f1.State()), vAllTables(f2.State())
	for table, rows := range a {
		verifrt.Assert("C01.fsm.same-tables", reflect.DeepEqual(rows, b[table]))
	}
	verifrt.Reached("end")
}
