//go:build verif

package fsm

import (
	"bytes"
	"fmt"
	"context"
	"errors"
	"io"
	"reflect"
	"time"

	"github.com/hashicorp/go-hclog"
	"google.golang.org/grpc"
	"google.golang.org/protobuf/proto"
	"google.golang.org/protobuf/types/known/timestamppb"

	"github.com/hashicorp/consul-net-rpc/go-msgpack/codec"

	"github.com/hashicorp/consul/agent/consul/state"
	"github.com/hashicorp/consul/agent/netutil"
	"github.com/hashicorp/consul/agent/structs"
	"github.com/hashicorp/consul/api"
	raftstorage "github.com/hashicorp/consul/internal/storage/raft"
	"github.com/hashicorp/consul/internal/verifrt"
	"github.com/hashicorp/consul/proto/private/pbpeering"
)

// C02: restore(snapshot(S)) is indistinguishable from S. The real persisters
// (snapshot.Persist: record order, record types) and the real restorer registry
// (ReadSnapshot + restorers[...] + state.Restore) run; under the engine the
// msgpack codec is replaced by an ideal one (a tape of deep-copied objects),
// natively the real codec is used.

type vSink struct{ buf bytes.Buffer }

func (s *vSink) Write(p []byte) (int, error) { return s.buf.Write(p) }
func (s *vSink) Close() error                { return nil }
func (s *vSink) ID() string                  { return "verif" }
func (s *vSink) Cancel() error               { return nil }

// a raft handle for the resource storage backend (never used for writes here)
type vRaftHandle struct{}

func (vRaftHandle) Apply(msg []byte) (any, error)                      { return nil, errors.New("not used") }
func (vRaftHandle) IsLeader() bool                                      { return true }
func (vRaftHandle) EnsureStrongConsistency(context.Context) error       { return nil }
func (vRaftHandle) DialLeader() (*grpc.ClientConn, error)               { return nil, errors.New("not used") }

type vTape struct {
	items []any
	pos   int
}

func vInstallIdealCodec(t *vTape) {
	const pkg = "github.com/hashicorp/consul-net-rpc/go-msgpack/codec."
	verifrt.Replace(pkg+"NewEncoder", func(w io.Writer, h codec.Handle) *codec.Encoder { return &codec.Encoder{} })
	verifrt.Replace(pkg+"NewDecoder", func(r io.Reader, h codec.Handle) *codec.Decoder { return &codec.Decoder{} })
	verifrt.Replace("(*"+pkg+"Encoder).Encode", func(e *codec.Encoder, v interface{}) error {
		t.items = append(t.items, verifrt.DeepCopy(v))
		return nil
	})
	verifrt.Replace("(*"+pkg+"Decoder).Decode", func(d *codec.Decoder, v interface{}) error {
		if t.pos >= len(t.items) {
			return io.EOF
		}
		src := t.items[t.pos]
		t.pos++
		if !verifrt.CopyInto(v, src) {
			panic(fmt.Sprintf("ideal codec: type mismatch between persisted %T and restored %T", src, v))
		}
		return nil
	})
}

func vAllTables(s *state.Store) map[string][]any {
	out := map[string][]any{}
	err := s.WalkAllTables(func(table string, item interface{}) bool {
		out[table] = append(out[table], item)
		return true
	})
	if err != nil {
		panic(err)
	}
	return out
}

// vNormalise: rows of the derived tables "usage" and "kind-service-names" are
// rebuilt by the restore and stamped with the snapshot's last index; their
// internal index fields are not client data (DESIGN.md, observation O-6), so
// they are compared by content only. All other tables are compared exactly.
func vNormalise(table string, rows []any) []any {
	var out []any
	for _, r := range rows {
		switch v := r.(type) {
		case *state.UsageEntry:
			if v.Count != 0 { // a zero count and a missing row read the same
				out = append(out, state.UsageEntry{ID: v.ID, Count: v.Count})
			}
		case *state.KindServiceName:
			out = append(out, state.KindServiceName{Kind: v.Kind, Service: v.Service})
		default:
			out = append(out, r)
		}
	}
	return out
}

func vNative(name string, port int) *structs.RegisterRequest {
	return &structs.RegisterRequest{Node: "n1", Address: "10.0.0.1",
		Service: &structs.NodeService{ID: name, Service: name, Port: port, Connect: structs.ServiceConnect{Native: true}}}
}

// vSnapshotRestore persists s through the real snapshot persisters and restores the stream into a fresh
// store through the real restorer registry.
func vSnapshotRestore(s *state.Store) *state.Store {
	return vPersistRestore(vTakeSnapshot(s))
}

// vTakeSnapshot is FSM.Snapshot: a point-in-time handle on the store (raft calls Persist on it later,
// concurrently with further applies).
func vTakeSnapshot(s *state.Store) *snapshot {
	backend, berr := raftstorage.NewBackend(vRaftHandle{}, hclog.NewNullLogger())
	if berr != nil {
		panic(berr)
	}
	storageSnap, serr := backend.Snapshot()
	if serr != nil {
		panic(serr)
	}
	return &snapshot{state: s.Snapshot(), storageSnapshot: storageSnap}
}

func vPersistRestore(snap *snapshot) *state.Store {
	must := func(err error) {
		if err != nil {
			panic(err)
		}
	}
	sink := &vSink{}
	must(snap.Persist(sink))
	snap.Release()

	restored := state.NewStateStore(nil)
	restore := restored.Restore()
	err := ReadSnapshot(&sink.buf, func(header *SnapshotHeader, msg structs.MessageType, dec *codec.Decoder) error {
		if verifrt.Symbolic() && msg == structs.ServiceVirtualIPRequestType {
			// cut (engine only): this restorer decodes through map[string]interface{} and
			// mapstructure (reflection) to tolerate pre-1.13 snapshots; the ideal codec hands
			// over the typed record directly. Native replays run the real restorer.
			var vip state.ServiceVirtualIP
			if err := dec.Decode(&vip); err != nil {
				return err
			}
			return restore.ServiceVirtualIP(vip)
		}
		fn := restorers[msg]
		if fn == nil {
			return errors.New("no restorer registered for a persisted record type")
		}
		return fn(header, restore, dec)
	})
	verifrt.Assert("C02.restore.no-error", err == nil)
	must(restore.Commit())

	return restored
}

// vSameRows compares the rows of one table of the original and the restored store. Protobuf rows are
// compared with proto.Equal natively (their internal caches are not content); under the engine the ideal
// codec copies them whole.
func vSameRows(table string, x, y []any) bool {
	x, y = vNormalise(table, x), vNormalise(table, y)
	if verifrt.Symbolic() {
		return reflect.DeepEqual(x, y)
	}
	if len(x) != len(y) {
		return false
	}
	for i := range x {
		px, ok1 := x[i].(proto.Message)
		py, ok2 := y[i].(proto.Message)
		if ok1 && ok2 {
			if !proto.Equal(px, py) {
				return false
			}
		} else if !reflect.DeepEqual(x[i], y[i]) {
			return false
		}
	}
	return true
}

func vAssertSameTables(s, restored *state.Store) {
	a, b := vAllTables(s), vAllTables(restored)
	for table, rows := range a {
		if !verifrt.Symbolic() && !vSameRows(table, rows, b[table]) {
			fmt.Printf("TABLE %s differs:\n  original: %+v\n  restored: %+v\n", table, vNormalise(table, rows), vNormalise(table, b[table]))
		}
		verifrt.Assert("C02.table-content-equal."+table, vSameRows(table, rows, b[table]))
	}
	for table, rows := range b {
		if _, ok := a[table]; !ok {
			verifrt.Assert("C02.no-extra-rows."+table, len(rows) == 0)
		}
	}
}

func VerifC02_SnapshotRestore() {
	netutil.GetAgentBindAddrFunc = netutil.GetMockGetAgentBindAddrFunc("0.0.0.0")
	if verifrt.Symbolic() {
		vInstallIdealCodec(&vTape{})
	}
	s := state.NewStateStore(nil)
	next := uint64(0)
	// raft indexes: symbolic, strictly increasing
	tick := func() uint64 {
		n := verifrt.U64("index")
		verifrt.Assume(n > next && n < 1<<40)
		next = n
		return next
	}
	must := func(err error) {
		if err != nil {
			panic(err)
		}
	}
	// a history; every part optional, values symbolic
	flagFirst := verifrt.Bool("virtual-ips-flag-before-services")
	setFlag := func() {
		must(s.SystemMetadataSet(tick(), &structs.SystemMetadataEntry{Key: structs.SystemMetadataVirtualIPsEnabled, Value: "true"}))
	}
	if flagFirst {
		setFlag()
	}
	if verifrt.Bool("mesh-service") {
		must(s.EnsureRegistration(tick(), vNative("web", 8080)))
	}
	if verifrt.Bool("typical-service") {
		must(s.EnsureRegistration(tick(), &structs.RegisterRequest{Node: "n2", Address: "10.0.0.2",
			Service: &structs.NodeService{ID: "db1", Service: "db", Port: 5432, Tags: []string{"a"}},
			Checks:  structs.HealthChecks{{Node: "n2", CheckID: "c1", ServiceID: "db1", Status: api.HealthPassing}}}))
	}
	if !flagFirst && verifrt.Bool("virtual-ips-flag-after-services") {
		setFlag()
	}
	kvKey := ""
	if verifrt.Bool("kv") {
		k := verifrt.StrN("kv.key", 1)
		kvKey = k
		verifrt.Assume(k[0] != 0)
		must(s.KVSSet(tick(), &structs.DirEntry{Key: k, Value: []byte{verifrt.U8("kv.val")}, Flags: verifrt.U64("kv.flags")}))
		if verifrt.Bool("kv.deleted") {
			must(s.KVSDelete(tick(), k, nil))
			// the key may be written again while its tombstone is still there
			if verifrt.Bool("kv.rewritten") {
				must(s.KVSSet(tick(), &structs.DirEntry{Key: k, Value: []byte{verifrt.U8("kv.val2")}}))
			}
		}
	}
	if verifrt.Bool("session") {
		must(s.EnsureNode(tick(), &structs.Node{Node: "n3", Address: "10.0.0.3"}))
		must(s.SessionCreate(tick(), &structs.Session{ID: "aaaaaaaa-aaaa-aaaa-aaaa-aaaaaaaaaaaa", Node: "n3", NodeChecks: []string{}}))
	}
	if verifrt.Bool("ca") {
		ok, err := s.CARootSetCAS(tick(), 0, []*structs.CARoot{{ID: "r1", Name: "root", Active: true}})
		if !ok || err != nil {
			panic("ca roots")
		}
		must(s.CASetConfig(tick(), &structs.CAConfiguration{Provider: "consul", ClusterID: "c1"}))
	}
	if verifrt.Bool("autopilot") {
		must(s.AutopilotSetConfig(tick(), &structs.AutopilotConfig{MaxTrailingLogs: verifrt.U64("autopilot.trailing")}))
		if verifrt.Bool("autopilot.updated") {
			// (an update: create and modify index now differ)
			must(s.AutopilotSetConfig(tick(), &structs.AutopilotConfig{MaxTrailingLogs: verifrt.U64("autopilot.trailing2")}))
		}
	}

	restored := vSnapshotRestore(s)
	vAssertSameTables(s, restored)
	// continuation: the same further command gives the same result on both
	idx := next + 5
	e1 := s.EnsureRegistration(idx, vNative("api", 9090))
	e2 := restored.EnsureRegistration(idx, vNative("api", 9090))
	v1, _ := s.VirtualIPForService(structs.PeeredServiceName{ServiceName: structs.NewServiceName("api", nil)})
	v2, _ := restored.VirtualIPForService(structs.PeeredServiceName{ServiceName: structs.NewServiceName("api", nil)})
	verifrt.Assert("C02.continuation-agrees", (e1 == nil) == (e2 == nil) && v1 == v2)
	// queries report the same result and the same index
	for _, prefix := range []string{"", kvKey, kvKey + "/"} {
		i1, l1, _ := s.KVSList(nil, prefix, nil)
		i2, l2, _ := restored.KVSList(nil, prefix, nil)
		verifrt.Assert("C02.kv-list-agrees", i1 == i2 && len(l1) == len(l2))
	}
	verifrt.Reached("end")
}

// Peerings and their secrets: a peering at any stage of (re-)establishment comes back with the same
// rows in every table (including the table that tracks which secret UUIDs are in use), and the same
// further secret operations succeed or fail alike on both stores.
func VerifC02_PeeringRestore() {
	if verifrt.Symbolic() {
		vInstallIdealCodec(&vTape{})
	}
	const (
		peerID = "1fabcd52-1d46-49b0-b1d8-71559aee47f5"
		est1   = "baaeea83-8419-4aa8-ac89-14e7246a3d2f"
		strm1  = "0b7812d4-32d9-4e54-b1b3-4d97084982a0"
		est2   = "389bbcdf-1c31-47d6-ae96-f2a3f4c45f84"
		strm2  = "d7b0b2a5-6f2c-4f7e-9f43-0f5f0c1f2a11"
	)
	generate := func(est string) *pbpeering.SecretsWriteRequest {
		return &pbpeering.SecretsWriteRequest{PeerID: peerID, Request: &pbpeering.SecretsWriteRequest_GenerateToken{
			GenerateToken: &pbpeering.SecretsWriteRequest_GenerateTokenRequest{EstablishmentSecret: est}}}
	}
	exchange := func(est, pending string) *pbpeering.SecretsWriteRequest {
		return &pbpeering.SecretsWriteRequest{PeerID: peerID, Request: &pbpeering.SecretsWriteRequest_ExchangeSecret{
			ExchangeSecret: &pbpeering.SecretsWriteRequest_ExchangeSecretRequest{EstablishmentSecret: est, PendingStreamSecret: pending}}}
	}
	promote := func(pending string) *pbpeering.SecretsWriteRequest {
		return &pbpeering.SecretsWriteRequest{PeerID: peerID, Request: &pbpeering.SecretsWriteRequest_PromotePending{
			PromotePending: &pbpeering.SecretsWriteRequest_PromotePendingRequest{ActiveStreamSecret: pending}}}
	}
	history := []*pbpeering.SecretsWriteRequest{generate(est1), exchange(est1, strm1), promote(strm1), generate(est2), exchange(est2, strm2), promote(strm2)}

	s := state.NewStateStore(nil)
	next := uint64(0)
	tick := func() uint64 {
		n := verifrt.U64("index")
		verifrt.Assume(n > next && n < 1<<40)
		next = n
		return next
	}
	must := func(err error) {
		if err != nil {
			panic(err)
		}
	}
	must(s.PeeringWrite(tick(), &pbpeering.PeeringWriteRequest{Peering: &pbpeering.Peering{ID: peerID, Name: "example"}}))
	// the snapshot is taken after any prefix of the establishment history
	cut := verifrt.Choice("cut", len(history)+1)
	for _, req := range history[:cut] {
		must(s.PeeringSecretsWrite(tick(), req))
	}
	restored := vSnapshotRestore(s)
	vAssertSameTables(s, restored)
	// continuation: the rest of the history, then the peering is marked for deletion
	for _, req := range history[cut:] {
		idx := tick()
		e1 := s.PeeringSecretsWrite(idx, req)
		e2 := restored.PeeringSecretsWrite(idx, req)
		verifrt.Assert("C02.peering.continuation-agrees", (e1 == nil) == (e2 == nil))
	}
	for _, id := range []string{est1, strm1, est2, strm2} {
		f1, e1 := s.ValidateProposedPeeringSecretUUID(id)
		f2, e2 := restored.ValidateProposedPeeringSecretUUID(id)
		verifrt.Assert("C02.peering.secret-uuid-availability-agrees", f1 == f2 && (e1 == nil) == (e2 == nil))
	}
	vAssertSameTables(s, restored)
	verifrt.Reached("end")
}

// The dialing side of a peering: its stream secret was generated by the other cluster and is stored without
// being tracked as "in use here"; snapshot and restore must give back the same tables, and deleting the
// peering afterwards must behave alike on both stores.
func VerifC02_DialingPeeringRestore() {
	if verifrt.Symbolic() {
		vInstallIdealCodec(&vTape{})
	}
	const (
		peerID = "2fabcd52-1d46-49b0-b1d8-71559aee47f5"
		strm   = "1b7812d4-32d9-4e54-b1b3-4d97084982a0"
	)
	s := state.NewStateStore(nil)
	next := uint64(0)
	tick := func() uint64 {
		n := verifrt.U64("index")
		verifrt.Assume(n > next && n < 1<<40)
		next = n
		return next
	}
	must := func(err error) {
		if err != nil {
			panic(err)
		}
	}
	dialer := func() *pbpeering.Peering {
		return &pbpeering.Peering{ID: peerID, Name: "dialer", PeerServerAddresses: []string{"10.0.0.1:8502"}, PeerID: "3fabcd52-1d46-49b0-b1d8-71559aee47f5"}
	}
	must(s.PeeringWrite(tick(), &pbpeering.PeeringWriteRequest{Peering: dialer(),
		SecretsRequest: &pbpeering.SecretsWriteRequest{PeerID: peerID, Request: &pbpeering.SecretsWriteRequest_Establish{
			Establish: &pbpeering.SecretsWriteRequest_EstablishRequest{ActiveStreamSecret: strm}}}}))
	restored := vSnapshotRestore(s)
	vAssertSameTables(s, restored)
	f1, e1 := s.ValidateProposedPeeringSecretUUID(strm)
	f2, e2 := restored.ValidateProposedPeeringSecretUUID(strm)
	verifrt.Assert("C02.peering.secret-uuid-availability-agrees", f1 == f2 && (e1 == nil) == (e2 == nil))
	// continuation: the peering is marked for deletion (which drops its secrets) on both stores
	idx := tick()
	del := func(st *state.Store) error {
		p := dialer()
		p.State = pbpeering.PeeringState_DELETING
		p.DeletedAt = timestamppb.New(time.Unix(1700000000, 0))
		return st.PeeringWrite(idx, &pbpeering.PeeringWriteRequest{Peering: p})
	}
	d1, d2 := del(s), del(restored)
	verifrt.Assert("C02.peering.continuation-agrees", (d1 == nil) == (d2 == nil))
	vAssertSameTables(s, restored)
	verifrt.Reached("end")
}
