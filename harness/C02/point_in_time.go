//go:build verif

package fsm

import (
	"fmt"
	"time"

	"github.com/hashicorp/serf/coordinate"

	"github.com/hashicorp/consul/agent/consul/state"
	"github.com/hashicorp/consul/agent/netutil"
	"github.com/hashicorp/consul/agent/structs"
	"github.com/hashicorp/consul/api"
	"github.com/hashicorp/consul/internal/verifrt"
)

// C02 ("a snapshot taken at any moment"): raft persists a snapshot concurrently with further
// applies, so FSM.Snapshot must be a point-in-time handle. A store holding one object of every
// kind listed below is snapshotted; then a later write of one kind (update, create and delete) is
// applied to the live store; then the snapshot is persisted and restored. The restored store
// equals the store as it was when the snapshot was taken, table by table.

func vPITTables(s *state.Store) map[string][]any {
	out := map[string][]any{}
	for t, rows := range vAllTables(s) {
		for _, r := range rows {
			out[t] = append(out[t], verifrt.DeepCopy(r))
		}
	}
	return out
}

func VerifC02_PointInTime() {
	netutil.GetAgentBindAddrFunc = netutil.GetMockGetAgentBindAddrFunc("0.0.0.0")
	if verifrt.Symbolic() {
		vInstallIdealCodec(&vTape{})
	}
	s := state.NewStateStore(nil)
	must := func(err error) {
		if err != nil {
			panic(err)
		}
	}
	const (
		pol1 = "a0000000-0000-0000-0000-0000000000a1"
		pol2 = "a0000000-0000-0000-0000-0000000000a2"
		rol1 = "a0000000-0000-0000-0000-0000000000b1"
		tokA = "a0000000-0000-0000-0000-0000000000c1"
		tokS = "a0000000-0000-0000-0000-0000000000c2"
		tok2 = "a0000000-0000-0000-0000-0000000000d1"
		tk2S = "a0000000-0000-0000-0000-0000000000d2"
		ses1 = "a0000000-0000-0000-0000-0000000000e1"
		ses2 = "a0000000-0000-0000-0000-0000000000e2"
		pq1  = "a0000000-0000-0000-0000-0000000000f1"
		pq2  = "a0000000-0000-0000-0000-0000000000f2"
	)
	// config entries reach the store normalised (the RPC endpoint and the FSM call Normalize, which also
	// stamps the content hash that the restore recomputes)
	ensureEntry := func(idx uint64, e structs.ConfigEntry) error {
		if err := e.Normalize(); err != nil {
			return err
		}
		return s.EnsureConfigEntry(idx, e)
	}
	coord := func() *coordinate.Coordinate { return coordinate.NewCoordinate(coordinate.DefaultConfig()) }
	must(s.EnsureRegistration(1, &structs.RegisterRequest{Node: "n1", Address: "10.0.0.1",
		Service: &structs.NodeService{ID: "web1", Service: "web", Port: 80},
		Checks:  structs.HealthChecks{{Node: "n1", CheckID: "c1", ServiceID: "web1", Status: api.HealthPassing}}}))
	must(s.EnsureNode(2, &structs.Node{Node: "n2", Address: "10.0.0.2"}))
	must(s.SessionCreate(3, &structs.Session{ID: ses1, Node: "n1", NodeChecks: []string{}}))
	must(s.KVSSet(4, &structs.DirEntry{Key: "a", Value: []byte{1}}))
	must(s.KVSSet(5, &structs.DirEntry{Key: "b", Value: []byte{2}}))
	must(s.KVSDelete(6, "b", nil))
	must(s.ACLPolicySet(7, &structs.ACLPolicy{ID: pol1, Name: "p1", Rules: `key "a" { policy = "read" }`}))
	must(s.ACLRoleSet(8, &structs.ACLRole{ID: rol1, Name: "r1", Policies: []structs.ACLRolePolicyLink{{ID: pol1}}}))
	must(s.ACLTokenSet(9, &structs.ACLToken{AccessorID: tokA, SecretID: tokS, Policies: []structs.ACLTokenPolicyLink{{ID: pol1}}}))
	must(s.PreparedQuerySet(10, &structs.PreparedQuery{ID: pq1, Name: "q1", Service: structs.ServiceQuery{Service: "web"}}))
	must(s.CoordinateBatchUpdate(11, structs.Coordinates{{Node: "n1", Coord: coord()}}))
	must(s.FederationStateSet(12, &structs.FederationState{Datacenter: "dc1", UpdatedAt: time.Unix(1700000000, 0).UTC()}))
	must(s.FederationStateSet(13, &structs.FederationState{Datacenter: "dc2", UpdatedAt: time.Unix(1700000000, 0).UTC()}))
	must(ensureEntry(14, &structs.ServiceConfigEntry{Kind: structs.ServiceDefaults, Name: "web", Protocol: "http"}))
	must(s.SystemMetadataSet(15, &structs.SystemMetadataEntry{Key: "k1", Value: "v1"}))
	must(s.AutopilotSetConfig(16, &structs.AutopilotConfig{MaxTrailingLogs: 7}))
	ok, err := s.CARootSetCAS(17, 0, []*structs.CARoot{{ID: "r1", Name: "root", Active: true}})
	if !ok || err != nil {
		panic("ca roots")
	}
	must(s.CASetConfig(18, &structs.CAConfiguration{Provider: "consul", ClusterID: "c1"}))

	snap := vTakeSnapshot(s)
	atSnapshot := vPITTables(s)

	// a later apply of one kind: update an object, create one, delete one
	kind := verifrt.Choice("later-write", 13)
	name := []string{"none", "catalog", "session", "kv", "acl-policy", "acl-role", "acl-token", "prepared-query", "coordinate",
		"federation-state", "config-entry", "system-metadata", "autopilot-ca"}[kind]
	switch kind {
	case 1:
		must(s.EnsureRegistration(20, &structs.RegisterRequest{Node: "n1", Address: "10.0.0.9",
			Service: &structs.NodeService{ID: "web1", Service: "web", Port: 81},
			Checks:  structs.HealthChecks{{Node: "n1", CheckID: "c1", ServiceID: "web1", Status: api.HealthCritical}}}))
		must(s.EnsureRegistration(21, &structs.RegisterRequest{Node: "n3", Address: "10.0.0.3",
			Service: &structs.NodeService{ID: "api1", Service: "api", Port: 82}}))
		must(s.DeleteNode(22, "n2", nil, ""))
	case 2:
		must(s.SessionCreate(20, &structs.Session{ID: ses2, Node: "n2", NodeChecks: []string{}}))
		must(s.SessionDestroy(21, ses1, nil))
	case 3:
		must(s.KVSSet(20, &structs.DirEntry{Key: "a", Value: []byte{9}}))
		must(s.KVSSet(21, &structs.DirEntry{Key: "c", Value: []byte{3}}))
		must(s.KVSDelete(22, "a", nil))
		must(s.ReapTombstones(23, 6))
	case 4:
		must(s.ACLPolicySet(20, &structs.ACLPolicy{ID: pol1, Name: "p1", Rules: `key "a" { policy = "write" }`}))
		must(s.ACLPolicySet(21, &structs.ACLPolicy{ID: pol2, Name: "p2"}))
	case 5:
		must(s.ACLRoleSet(20, &structs.ACLRole{ID: rol1, Name: "r1-renamed", Policies: []structs.ACLRolePolicyLink{{ID: pol1}}}))
		must(s.ACLRoleBatchDelete(21, []string{rol1}))
	case 6:
		must(s.ACLTokenSet(20, &structs.ACLToken{AccessorID: tokA, SecretID: tokS, Description: "changed", Policies: []structs.ACLTokenPolicyLink{{ID: pol1}}}))
		must(s.ACLTokenSet(21, &structs.ACLToken{AccessorID: tok2, SecretID: tk2S}))
		must(s.ACLTokenBatchDelete(22, []string{tokA}))
	case 7:
		must(s.PreparedQuerySet(20, &structs.PreparedQuery{ID: pq1, Name: "q1", Service: structs.ServiceQuery{Service: "api"}}))
		must(s.PreparedQuerySet(21, &structs.PreparedQuery{ID: pq2, Name: "q2", Service: structs.ServiceQuery{Service: "web"}}))
		must(s.PreparedQueryDelete(22, pq1))
	case 8:
		c := coord()
		c.Height = 0.5
		must(s.CoordinateBatchUpdate(20, structs.Coordinates{{Node: "n1", Coord: c}, {Node: "n2", Coord: coord()}}))
	case 9:
		must(s.FederationStateSet(20, &structs.FederationState{Datacenter: "dc1", UpdatedAt: time.Unix(1700000099, 0).UTC()}))
		must(s.FederationStateSet(21, &structs.FederationState{Datacenter: "dc3", UpdatedAt: time.Unix(1700000099, 0).UTC()}))
		must(s.FederationStateDelete(22, "dc2"))
	case 10:
		must(ensureEntry(20, &structs.ServiceConfigEntry{Kind: structs.ServiceDefaults, Name: "web", Protocol: "grpc"}))
		must(ensureEntry(21, &structs.ServiceConfigEntry{Kind: structs.ServiceDefaults, Name: "api", Protocol: "tcp"}))
		must(s.DeleteConfigEntry(22, structs.ServiceDefaults, "web", nil))
	case 11:
		must(s.SystemMetadataSet(20, &structs.SystemMetadataEntry{Key: "k1", Value: "v2"}))
		must(s.SystemMetadataSet(21, &structs.SystemMetadataEntry{Key: "k2", Value: "v"}))
		must(s.SystemMetadataDelete(22, &structs.SystemMetadataEntry{Key: "k1"}))
	case 12:
		must(s.AutopilotSetConfig(20, &structs.AutopilotConfig{MaxTrailingLogs: 9}))
		must(s.CASetConfig(21, &structs.CAConfiguration{Provider: "consul", ClusterID: "c2"}))
		ok, err := s.CARootSetCAS(22, 17, []*structs.CARoot{{ID: "r1", Name: "root"}, {ID: "r2", Name: "root2", Active: true}})
		if !ok || err != nil {
			panic("ca roots 2")
		}
	}

	restored := vPersistRestore(snap)
	got := vAllTables(restored)
	for table, rows := range atSnapshot {
		if !verifrt.Symbolic() && !vSameRows(table, rows, got[table]) {
			fmt.Printf("TABLE %s differs:\n  at snapshot: %+v\n  restored: %+v\n", table, vNormalise(table, rows), vNormalise(table, got[table]))
			for i := range rows {
				fmt.Printf("   row %d: %+v | %+v\n", i, rows[i], got[table][i])
			}
		}
		verifrt.Assert("C02.point-in-time."+name+".restored-table-equals-the-table-at-snapshot-time."+table, vSameRows(table, rows, got[table]))
	}
	for table, rows := range got {
		if _, ok := atSnapshot[table]; !ok {
			verifrt.Assert("C02.point-in-time."+name+".no-extra-rows."+table, len(vNormalise(table, rows)) == 0)
		}
	}
	verifrt.Reached("end")
}
