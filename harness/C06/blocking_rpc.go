//go:build verif

package consul

import (
	"time"

	"github.com/hashicorp/consul/agent/structs"
	"github.com/hashicorp/consul/internal/verifrt"
)

// C06 (RPC layer): a blocking KV read (KVS.Get / List / ListKeys) parked on index m while a
// write is committed. Whatever the write: the reply's result is exactly what a fresh
// non-blocking read of the final state returns (a change is never missed: the parked query is
// woken and re-evaluated; a wait that ends by its deadline hands back the unchanged result), its
// index is never zero and never above the fresh read's, and a reply that differs from the one
// the caller held (the read at index m) carries an index above m.

type vKeysSnap struct {
	keys  []string
	index uint64
}

func vSameKeys(a, b []string) bool {
	if len(a) != len(b) {
		return false
	}
	for i := range a {
		if a[i] != b[i] {
			return false
		}
	}
	return true
}

func vSameEntries(a, b structs.DirEntries) bool {
	if len(a) != len(b) {
		return false
	}
	for i := range a {
		x, y := a[i], b[i]
		if x.Key != y.Key || x.ModifyIndex != y.ModifyIndex || x.CreateIndex != y.CreateIndex || x.Flags != y.Flags ||
			len(x.Value) != len(y.Value) || (len(x.Value) == 1 && x.Value[0] != y.Value[0]) {
			return false
		}
	}
	return true
}

func VerifC06_BlockingKVEndpoints_Setup() any {
	s, _ := vPartialServer(false)
	return s
}

func VerifC06_BlockingKVEndpoints(st any) {
	s := st.(*Server)
	store := s.fsm.State()
	// state: 0..2 keys out of {a, a/, a/a, /} written at increasing indexes; one optional delete before
	names := []string{"a", "a/a", "a/b", "b"}
	idx := uint64(0)
	// indexes are concrete and increasing: only their order matters at this layer (symbolic indexes
	// are the subject of the state-level harnesses of this check)
	next := func(tag string) uint64 {
		idx += 10
		return idx
	}
	for i, k := range names {
		if verifrt.Bool("have." + k) {
			if err := store.KVSSet(next("d"+string(rune('0'+i))), &structs.DirEntry{Key: k, Value: []byte{verifrt.U8("v." + k)}}); err != nil {
				panic(err)
			}
		}
	}
	if verifrt.Bool("earlier-delete") {
		if err := store.KVSDelete(next("dd"), names[verifrt.Choice("earlier-delete.key", len(names))], nil); err != nil {
			panic(err)
		}
	}
	// the write that arrives while the query is parked (drawn now, committed later)
	wkey := names[verifrt.Choice("w.key", len(names))]
	wverb := verifrt.Choice("w.verb", 3)
	wval := verifrt.U8("w.val")
	widx := next("dw")
	write := func() {
		switch wverb {
		case 0:
			store.KVSSet(widx, &structs.DirEntry{Key: wkey, Value: []byte{wval}})
		case 1:
			store.KVSDelete(widx, wkey, nil)
		case 2:
			store.KVSDeleteTree(widx, wkey, nil)
		}
	}
	k := &KVS{srv: s, logger: s.logger}
	ep := verifrt.Choice("endpoint", 3)
	prefix := []string{"", "a", "a/"}[verifrt.Choice("prefix", 3)]
	// the caller's previous read (non-blocking) gives the index it blocks on
	var before0 structs.IndexedDirEntries
	var beforeK structs.IndexedKeyList
	var m uint64
	switch ep {
	case 0:
		verifrt.Assert("C06.rpc.first-read-no-error", k.Get(&structs.KeyRequest{Datacenter: "dc1", Key: wkey}, &before0) == nil)
		m = before0.Index
	case 1:
		verifrt.Assert("C06.rpc.first-read-no-error", k.List(&structs.KeyRequest{Datacenter: "dc1", Key: prefix}, &before0) == nil)
		m = before0.Index
	case 2:
		verifrt.Assert("C06.rpc.first-read-no-error", k.ListKeys(&structs.KeyListRequest{Datacenter: "dc1", Prefix: prefix, Seperator: "/"}, &beforeK) == nil)
		m = beforeK.Index
	}
	verifrt.Assert("C06.rpc.first-read-index-not-zero", m != 0)
	qo := structs.QueryOptions{MinQueryIndex: m, MaxQueryTime: 2 * time.Second}
	vWhileBlocked(s, write)
	switch ep {
	case 0:
		var got, fresh structs.IndexedDirEntries
		err := k.Get(&structs.KeyRequest{Datacenter: "dc1", Key: wkey, QueryOptions: qo}, &got)
		err2 := k.Get(&structs.KeyRequest{Datacenter: "dc1", Key: wkey}, &fresh)
		verifrt.Assert("C06.rpc.get.no-error", err == nil && err2 == nil)
		verifrt.Assert("C06.rpc.get.index-not-zero", got.Index != 0)
		verifrt.Assert("C06.rpc.get.blocked-read-returns-the-current-result", vSameEntries(got.Entries, fresh.Entries) && got.Index <= fresh.Index)
		if !vSameEntries(got.Entries, before0.Entries) {
			verifrt.Assert("C06.rpc.get.changed-result-has-greater-index", got.Index > m)
			verifrt.Reached("changed")
		} else {
			verifrt.Reached("unchanged")
		}
	case 1:
		var got, fresh structs.IndexedDirEntries
		err := k.List(&structs.KeyRequest{Datacenter: "dc1", Key: prefix, QueryOptions: qo}, &got)
		err2 := k.List(&structs.KeyRequest{Datacenter: "dc1", Key: prefix}, &fresh)
		verifrt.Assert("C06.rpc.list.no-error", err == nil && err2 == nil)
		verifrt.Assert("C06.rpc.list.index-not-zero", got.Index != 0)
		verifrt.Assert("C06.rpc.list.blocked-read-returns-the-current-result", vSameEntries(got.Entries, fresh.Entries) && got.Index <= fresh.Index)
		if !vSameEntries(got.Entries, before0.Entries) {
			verifrt.Assert("C06.rpc.list.changed-result-has-greater-index", got.Index > m)
			verifrt.Reached("changed")
		} else {
			verifrt.Reached("unchanged")
		}
	case 2:
		var got, fresh structs.IndexedKeyList
		err := k.ListKeys(&structs.KeyListRequest{Datacenter: "dc1", Prefix: prefix, Seperator: "/", QueryOptions: qo}, &got)
		err2 := k.ListKeys(&structs.KeyListRequest{Datacenter: "dc1", Prefix: prefix, Seperator: "/"}, &fresh)
		verifrt.Assert("C06.rpc.keys.no-error", err == nil && err2 == nil)
		verifrt.Assert("C06.rpc.keys.index-not-zero", got.Index != 0)
		verifrt.Assert("C06.rpc.keys.blocked-read-returns-the-current-result", vSameKeys(got.Keys, fresh.Keys) && got.Index <= fresh.Index)
		if !vSameKeys(got.Keys, beforeK.Keys) {
			verifrt.Assert("C06.rpc.keys.changed-result-has-greater-index", got.Index > m)
			verifrt.Reached("changed")
		} else {
			verifrt.Reached("unchanged")
		}
	}
}
