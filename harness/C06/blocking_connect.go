//go:build verif

package state

import (
	"reflect"

	memdb "github.com/hashicorp/go-memdb"

	"github.com/hashicorp/consul/agent/netutil"
	"github.com/hashicorp/consul/agent/structs"
	"github.com/hashicorp/consul/internal/verifrt"
)

// C06 for connect reads through gateways: a service linked to up to two
// terminating gateways; the connect health / gateway reads are taken with a
// watch set, then one write; a changed result carries a strictly greater index
// and wakes the watcher.

func vConnectQuery(s *Store, ws memdb.WatchSet, q int) (uint64, any) {
	switch q {
	case 0:
		i, r, _ := s.CheckConnectServiceNodes(ws, "web", nil, "")
		return i, r
	case 1:
		i, r, _ := s.ConnectServiceNodes(ws, "web", nil, "")
		return i, r
	}
	i, r, _ := s.ServiceGateways(ws, "web", structs.ServiceKindTerminatingGateway, *structs.DefaultEnterpriseMetaInDefaultPartition())
	return i, r
}

func VerifC06_ConnectGateways() {
	netutil.GetAgentBindAddrFunc = netutil.GetMockGetAgentBindAddrFunc("0.0.0.0")
	s := NewStateStore(nil)
	next := uint64(0)
	tick := func() uint64 { next++; return next }
	must := func(err error) {
		if err != nil {
			panic(err)
		}
	}
	must(s.EnsureNode(tick(), &structs.Node{Node: "n1", Address: "10.0.0.1"}))
	gw := func(name string) *structs.NodeService {
		return &structs.NodeService{Kind: structs.ServiceKindTerminatingGateway, ID: name, Service: name, Port: 8443}
	}
	link := func(name string) structs.ConfigEntry {
		return &structs.TerminatingGatewayConfigEntry{Kind: structs.TerminatingGateway, Name: name, Services: []structs.LinkedService{{Name: "web"}}}
	}
	must(s.EnsureConfigEntry(tick(), link("gw-a")))
	twoGateways := verifrt.Bool("second-gateway-linked")
	if twoGateways {
		must(s.EnsureConfigEntry(tick(), link("gw-b")))
	}
	hasA := verifrt.Bool("gw-a.instance")
	if hasA {
		must(s.EnsureService(tick(), "n1", gw("gw-a")))
	}
	hasB := twoGateways && verifrt.Bool("gw-b.instance")
	if hasB {
		must(s.EnsureService(tick(), "n1", gw("gw-b")))
	}
	q := verifrt.Choice("read", 3)
	qn := []string{"check-connect-service-nodes", "connect-service-nodes", "service-gateways"}[q]
	ws := memdb.NewWatchSet()
	i0, r0 := vConnectQuery(s, ws, q)
	r0c := vDeepValue(r0)

	idx := verifrt.U64("idx")
	verifrt.Assume(idx > next && idx < 1<<62)
	w := verifrt.Choice("write", 5)
	switch w {
	case 0:
		must(s.EnsureService(idx, "n1", gw("gw-a")))
	case 1:
		if !twoGateways {
			verifrt.Assume(false)
		}
		must(s.EnsureService(idx, "n1", gw("gw-b")))
	case 2:
		if !hasA {
			verifrt.Assume(false)
		}
		must(s.DeleteService(idx, "n1", "gw-a", nil, ""))
	case 3:
		if !hasB {
			verifrt.Assume(false)
		}
		must(s.DeleteService(idx, "n1", "gw-b", nil, ""))
	case 4:
		must(s.DeleteConfigEntry(idx, structs.TerminatingGateway, "gw-a", nil))
	}
	wn := []string{"register-gw-a", "register-gw-b", "deregister-gw-a", "deregister-gw-b", "unlink-gw-a"}[w]
	i1, r1 := vConnectQuery(s, nil, q)
	// (the watcher first: the recorded finding about unlinking ends the path at the index assertions)
	changed := !reflect.DeepEqual(r0c, vDeepValue(r1))
	if changed {
		verifrt.Assert("C06."+qn+"."+wn+".changed-result-wakes-the-watcher", vFiredWS(ws))
		verifrt.Assert("C06."+qn+"."+wn+".changed-result-has-greater-index", i1 > i0)
	}
	verifrt.Assert("C06."+qn+"."+wn+".index-never-decreases", i1 >= i0)
	if changed {
		verifrt.Reached("changed")
	} else {
		verifrt.Reached("unchanged")
	}
}
