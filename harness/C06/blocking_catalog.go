//go:build verif

package state

import (
	"reflect"

	memdb "github.com/hashicorp/go-memdb"

	"github.com/hashicorp/consul/agent/structs"
	"github.com/hashicorp/consul/api"
	"github.com/hashicorp/consul/internal/verifrt"
)

// C06 for catalog and health queries: states are built through the store's API
// (register/deregister), then one write; a changed result must carry a
// strictly greater index and the index must never decrease.

func VerifC06_Catalog_Setup() any {
	s := NewStateStore(nil)
	if err := s.EnsureNode(1, &structs.Node{Node: "n1", Address: "10.0.0.1"}); err != nil {
		panic(err)
	}
	if err := s.EnsureNode(2, &structs.Node{Node: "n2", Address: "10.0.0.2"}); err != nil {
		panic(err)
	}
	return s
}

func vTags(tag string) []string {
	switch verifrt.Choice(tag, 3) {
	case 1:
		return []string{"a"}
	case 2:
		return []string{"b"}
	}
	return nil
}

func vCatalogQuery(s *Store, ws memdb.WatchSet, q int) (uint64, any) {
	switch q {
	case 0:
		i, r, _ := s.ServiceNodes(ws, "web", nil, "")
		return i, r
	case 1:
		i, r, _ := s.CheckServiceNodes(ws, "web", nil, "")
		return i, r
	case 2:
		i, r, _ := s.CheckServiceTagNodes(ws, "web", []string{"a"}, nil, "")
		return i, r
	case 3:
		i, r, _ := s.ServiceTagNodes(ws, "web", []string{"a"}, nil, "")
		return i, r
	case 4:
		i, r, _ := s.NodeServices(ws, "n1", nil, "")
		return i, r
	case 5:
		i, r, _ := s.ServiceChecks(ws, "web", nil, "")
		return i, r
	}
	i, r, _ := s.NodeChecks(ws, "n1", nil, "")
	return i, r
}

var vCatalogQueryNames = []string{"service-nodes", "check-service-nodes", "check-service-tag-nodes", "service-tag-nodes", "node-services", "service-checks", "node-checks"}

func VerifC06_Catalog(st any) {
	s := st.(*Store)
	next := uint64(10)
	tick := func() uint64 { next++; return next }
	must := func(err error) {
		if err != nil {
			panic(err)
		}
	}
	// history: an unrelated service that may have come and gone (extinction index)
	if verifrt.Bool("db.was-registered") {
		must(s.EnsureService(tick(), "n2", &structs.NodeService{ID: "db1", Service: "db", Port: 5432}))
		if verifrt.Bool("db.deregistered") {
			must(s.DeleteService(tick(), "n2", "db1", nil, ""))
		}
	}
	must(s.EnsureService(tick(), "n1", &structs.NodeService{ID: "web1", Service: "web", Port: 80, Tags: vTags("web1.tags")}))
	if verifrt.Bool("web2.present") {
		must(s.EnsureService(tick(), "n2", &structs.NodeService{ID: "web2", Service: "web", Port: 80, Tags: vTags("web2.tags")}))
	}
	if verifrt.Bool("check.present") {
		must(s.EnsureCheck(tick(), &structs.HealthCheck{Node: "n1", CheckID: "c1", ServiceID: "web1", Status: api.HealthPassing}))
	}
	q := verifrt.Choice("query", len(vCatalogQueryNames))
	qn := vCatalogQueryNames[q]
	ws := memdb.NewWatchSet()
	i0, r0 := vCatalogQuery(s, ws, q)

	idx := verifrt.U64("idx")
	verifrt.Assume(idx > next)
	w := verifrt.Choice("write", 5)
	switch w {
	case 0:
		must(s.EnsureService(idx, "n1", &structs.NodeService{ID: "web1", Service: "web", Port: 80, Tags: vTags("web1.newtags")}))
	case 1:
		must(s.DeleteService(idx, "n1", "web1", nil, ""))
	case 2:
		must(s.EnsureService(idx, "n2", &structs.NodeService{ID: "web3", Service: "web", Port: 81, Tags: vTags("web3.tags")}))
	case 3:
		must(s.EnsureCheck(idx, &structs.HealthCheck{Node: "n1", CheckID: "c1", ServiceID: "web1", Status: api.HealthCritical}))
	case 4:
		must(s.DeleteNode(idx, "n1", nil, ""))
	}
	wn := []string{"reregister", "deregister", "register-other", "check-update", "delete-node"}[w]
	i1, r1 := vCatalogQuery(s, nil, q)
	verifrt.Assert("C06."+qn+"."+wn+".index-never-decreases", i1 >= i0)
	if !reflect.DeepEqual(r0, r1) {
		verifrt.Assert("C06."+qn+"."+wn+".changed-result-has-greater-index", i1 > i0)
		verifrt.Assert("C06."+qn+"."+wn+".changed-result-wakes-the-watcher", vFiredWS(ws))
		verifrt.Reached("changed")
	} else {
		verifrt.Reached("unchanged")
	}
}


// Node-level reads of a node (local or imported from a peer) around its deregistration: the index never
// decreases, is not zero once the node has existed, and a changed result carries a greater index.
func VerifC06_NodeReads() {
	s := NewStateStore(nil)
	must := func(err error) {
		if err != nil {
			panic(err)
		}
	}
	peer := ""
	if verifrt.Bool("imported") {
		peer = "p1"
	}
	must(s.EnsureRegistration(1, &structs.RegisterRequest{Node: "n0", Address: "10.0.0.9", PeerName: peer}))
	must(s.EnsureRegistration(2, &structs.RegisterRequest{Node: "n1", Address: "10.0.0.1", PeerName: peer,
		Service: &structs.NodeService{ID: "web1", Service: "web", Port: 80, PeerName: peer}}))
	read := func(ws memdb.WatchSet, q int) (uint64, any) {
		switch q {
		case 0:
			i, r, _ := s.NodeServices(ws, "n1", nil, peer)
			return i, r
		case 1:
			i, r, _ := s.NodeServiceList(ws, "n1", nil, peer)
			return i, r
		case 2:
			i, r, _ := s.Nodes(ws, nil, peer)
			return i, r
		}
		i, r, _ := s.GetNode("n1", nil, peer)
		return i, r
	}
	q := verifrt.Choice("read", 4)
	qn := []string{"node-services", "node-service-list", "nodes", "get-node"}[q]
	ws := memdb.NewWatchSet()
	i0, r0 := read(ws, q)
	idx := verifrt.U64("idx")
	verifrt.Assume(idx > 2 && idx < 1<<62)
	w := verifrt.Choice("write", 3)
	switch w {
	case 0:
		must(s.DeleteNode(idx, "n1", nil, peer))
	case 1:
		must(s.DeleteService(idx, "n1", "web1", nil, peer))
	case 2:
		must(s.EnsureRegistration(idx, &structs.RegisterRequest{Node: "n1", Address: "10.0.0.2", PeerName: peer}))
	}
	wn := []string{"delete-node", "delete-service", "node-address"}[w]
	i1, r1 := read(nil, q)
	verifrt.Assert("C06."+qn+"."+wn+".index-never-decreases", i1 >= i0)
	verifrt.Assert("C06."+qn+"."+wn+".index-not-zero-after-the-node-existed", i1 != 0)
	if !reflect.DeepEqual(r0, r1) {
		verifrt.Assert("C06."+qn+"."+wn+".changed-result-has-greater-index", i1 > i0)
		verifrt.Reached("changed")
	} else {
		verifrt.Reached("unchanged")
	}
}
