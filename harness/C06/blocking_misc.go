//go:build verif

package state

import (
	"reflect"

	memdb "github.com/hashicorp/go-memdb"
	"github.com/hashicorp/serf/coordinate"
	"github.com/mitchellh/copystructure"

	"github.com/hashicorp/consul/agent/netutil"
	"github.com/hashicorp/consul/agent/structs"
	"github.com/hashicorp/consul/internal/verifrt"
)

// C06 for sessions, coordinates, config entries and prepared queries: states
// are built through the store's API (including earlier deletions), then one
// write; a changed result carries a strictly greater index and wakes the
// watcher, and the index never decreases.

const vQueryID = "cccccccc-cccc-cccc-cccc-cccccccccccc"

func vMiscQuery(s *Store, ws memdb.WatchSet, q int) (uint64, any) {
	switch q {
	case 0:
		i, r, _ := s.SessionList(ws, nil)
		return i, r
	case 1:
		i, r, _ := s.NodeSessions(ws, "n1", nil)
		return i, r
	case 2:
		i, r, _ := s.SessionGet(ws, vSessA, nil)
		return i, r
	case 3:
		i, r, _ := s.Coordinates(ws, nil)
		return i, r
	case 4:
		i, r, _ := s.Coordinate(ws, "n1", nil)
		return i, r
	case 5:
		i, r, _ := s.ConfigEntriesByKind(ws, structs.ServiceDefaults, nil)
		return i, r
	case 6:
		i, r, _ := s.ConfigEntry(ws, structs.ServiceDefaults, "web", nil)
		return i, r
	case 7:
		i, r, _ := s.PreparedQueryList(ws)
		return i, r
	}
	i, r, _ := s.PreparedQueryGet(ws, vQueryID)
	return i, r
}

var vMiscQueryNames = []string{"session-list", "node-sessions", "session-get", "coordinates", "coordinate", "config-entries-by-kind", "config-entry", "query-list", "query-get"}

func VerifC06_Misc() {
	netutil.GetAgentBindAddrFunc = netutil.GetMockGetAgentBindAddrFunc("0.0.0.0")
	s := NewStateStore(nil)
	next := uint64(0)
	tick := func() uint64 { next++; return next }
	must := func(err error) {
		if err != nil {
			panic(err)
		}
	}
	must(s.EnsureNode(tick(), &structs.Node{Node: "n1", Address: "10.0.0.1"}))
	must(s.EnsureNode(tick(), &structs.Node{Node: "n2", Address: "10.0.0.2"}))
	coord := func(h float64) *coordinate.Coordinate {
		c := coordinate.NewCoordinate(coordinate.DefaultConfig())
		c.Height = h
		return c
	}
	defaults := func(proto string) *structs.ServiceConfigEntry {
		e := &structs.ServiceConfigEntry{Kind: structs.ServiceDefaults, Name: "web", Protocol: proto}
		must(e.Normalize())
		return e
	}
	query := func(name string) *structs.PreparedQuery {
		return &structs.PreparedQuery{ID: vQueryID, Name: name, Service: structs.ServiceQuery{Service: "web"}}
	}
	// history: things that came and went
	if verifrt.Bool("earlier.session-destroyed") {
		must(s.SessionCreate(tick(), &structs.Session{ID: vSessB, Node: "n2", NodeChecks: []string{}}))
		must(s.SessionDestroy(tick(), vSessB, nil))
	}
	if verifrt.Bool("earlier.config-entry-deleted") {
		must(s.EnsureConfigEntry(tick(), &structs.ServiceConfigEntry{Kind: structs.ServiceDefaults, Name: "old", Protocol: "tcp"}))
		must(s.DeleteConfigEntry(tick(), structs.ServiceDefaults, "old", nil))
	}
	hasSession := verifrt.Bool("session")
	if hasSession {
		must(s.SessionCreate(tick(), &structs.Session{ID: vSessA, Node: "n1", NodeChecks: []string{}}))
	}
	if verifrt.Bool("coordinate") {
		must(s.CoordinateBatchUpdate(tick(), structs.Coordinates{{Node: "n1", Coord: coord(0.5)}}))
	}
	if verifrt.Bool("config-entry") {
		must(s.EnsureConfigEntry(tick(), defaults("tcp")))
	}
	hasQuery := verifrt.Bool("query")
	if hasQuery {
		must(s.PreparedQuerySet(tick(), query("q")))
	}

	q := verifrt.Choice("read", len(vMiscQueryNames))
	qn := vMiscQueryNames[q]
	ws := memdb.NewWatchSet()
	i0, r0 := vMiscQuery(s, ws, q)
	r0c := vDeepValue(r0)

	idx := verifrt.U64("idx")
	verifrt.Assume(idx > next && idx < 1<<62)
	w := verifrt.Choice("write", 9)
	switch w {
	case 0:
		must(s.SessionCreate(idx, &structs.Session{ID: vSessB, Node: "n1", NodeChecks: []string{}}))
	case 1:
		if !hasSession {
			verifrt.Assume(false)
		}
		must(s.SessionDestroy(idx, vSessA, nil))
	case 2:
		must(s.CoordinateBatchUpdate(idx, structs.Coordinates{{Node: "n1", Coord: coord(0.25)}}))
	case 3:
		must(s.EnsureConfigEntry(idx, defaults("http")))
	case 4:
		must(s.DeleteConfigEntry(idx, structs.ServiceDefaults, "web", nil))
	case 5:
		must(s.PreparedQuerySet(idx, query("q2")))
	case 6:
		if !hasQuery {
			verifrt.Assume(false)
		}
		must(s.PreparedQueryDelete(idx, vQueryID))
	case 7:
		must(s.DeleteNode(idx, "n1", nil, ""))
	case 8:
		must(s.EnsureConfigEntry(idx, &structs.ServiceConfigEntry{Kind: structs.ServiceDefaults, Name: "api", Protocol: "grpc"}))
	}
	wn := []string{"session-create", "session-destroy", "coordinate-update", "config-entry-set", "config-entry-delete", "query-set", "query-delete", "delete-node", "other-config-entry"}[w]
	i1, r1 := vMiscQuery(s, nil, q)
	verifrt.Assert("C06."+qn+"."+wn+".index-never-decreases", i1 >= i0)
	if !reflect.DeepEqual(r0c, vDeepValue(r1)) {
		verifrt.Assert("C06."+qn+"."+wn+".changed-result-has-greater-index", i1 > i0)
		verifrt.Assert("C06."+qn+"."+wn+".changed-result-wakes-the-watcher", vFiredWS(ws))
		verifrt.Reached("changed")
	} else {
		verifrt.Reached("unchanged")
	}
}

// a deep copy of a query result (results point at stored objects)
func vDeepValue(v any) any {
	if v == nil {
		return nil
	}
	c, err := copystructure.Copy(v)
	if err != nil {
		panic(err)
	}
	return c
}
