//go:build verif

package consul

import (
	"reflect"
	"time"

	"github.com/hashicorp/serf/coordinate"

	"github.com/hashicorp/consul/acl"
	"github.com/hashicorp/consul/agent/structs"
	"github.com/hashicorp/consul/internal/verifrt"
	"github.com/hashicorp/consul/types"
)

// C06 (RPC layer, "for every read endpoint"): a family of read endpoints (sessions, coordinates,
// catalog, health, internal, config entries, intentions, prepared queries) is called on a
// partial Server, first non-blocking, then blocking on the reported index while one write is
// committed, then non-blocking again. For every endpoint, every state of the family and every
// write: no index is zero; the blocked call's result is the fresh read's result (a change is
// never missed, a deadline hands back an unchanged result) with an index not above the fresh
// one; a result that differs from the first read's carries a greater index.

type vEndpoint struct {
	name string
	call func(qo structs.QueryOptions) (any, uint64, error)
}

func vReadEndpoints(s *Server) []vEndpoint {
	lg := s.logger
	sess := &Session{srv: s, logger: lg}
	coord := &Coordinate{srv: s, logger: lg}
	cat := &Catalog{srv: s, logger: lg}
	health := &Health{srv: s, logger: lg}
	internal := &Internal{srv: s, logger: lg}
	cfg := &ConfigEntry{srv: s, logger: lg}
	dc := "dc1"
	return []vEndpoint{
		{"session-list", func(qo structs.QueryOptions) (any, uint64, error) {
			var r structs.IndexedSessions
			err := sess.List(&structs.SessionSpecificRequest{Datacenter: dc, QueryOptions: qo}, &r)
			return r.Sessions, r.Index, err
		}},
		{"session-node", func(qo structs.QueryOptions) (any, uint64, error) {
			var r structs.IndexedSessions
			err := sess.NodeSessions(&structs.NodeSpecificRequest{Datacenter: dc, Node: "n1", QueryOptions: qo}, &r)
			return r.Sessions, r.Index, err
		}},
		{"coordinate-list", func(qo structs.QueryOptions) (any, uint64, error) {
			var r structs.IndexedCoordinates
			err := coord.ListNodes(&structs.DCSpecificRequest{Datacenter: dc, QueryOptions: qo}, &r)
			return r.Coordinates, r.Index, err
		}},
		{"catalog-nodes", func(qo structs.QueryOptions) (any, uint64, error) {
			var r structs.IndexedNodes
			err := cat.ListNodes(&structs.DCSpecificRequest{Datacenter: dc, QueryOptions: qo}, &r)
			return r.Nodes, r.Index, err
		}},
		{"catalog-services", func(qo structs.QueryOptions) (any, uint64, error) {
			var r structs.IndexedServices
			err := cat.ListServices(&structs.DCSpecificRequest{Datacenter: dc, QueryOptions: qo}, &r)
			return r.Services, r.Index, err
		}},
		{"catalog-service-nodes", func(qo structs.QueryOptions) (any, uint64, error) {
			var r structs.IndexedServiceNodes
			err := cat.ServiceNodes(&structs.ServiceSpecificRequest{Datacenter: dc, ServiceName: "web", QueryOptions: qo}, &r)
			return r.ServiceNodes, r.Index, err
		}},
		{"catalog-node-services", func(qo structs.QueryOptions) (any, uint64, error) {
			var r structs.IndexedNodeServices
			err := cat.NodeServices(&structs.NodeSpecificRequest{Datacenter: dc, Node: "n1", QueryOptions: qo}, &r)
			return r.NodeServices, r.Index, err
		}},
		{"health-node-checks", func(qo structs.QueryOptions) (any, uint64, error) {
			var r structs.IndexedHealthChecks
			err := health.NodeChecks(&structs.NodeSpecificRequest{Datacenter: dc, Node: "n1", QueryOptions: qo}, &r)
			return r.HealthChecks, r.Index, err
		}},
		{"health-service-nodes", func(qo structs.QueryOptions) (any, uint64, error) {
			var r structs.IndexedCheckServiceNodes
			err := health.ServiceNodes(&structs.ServiceSpecificRequest{Datacenter: dc, ServiceName: "web", QueryOptions: qo}, &r)
			return r.Nodes, r.Index, err
		}},
		{"internal-node-dump", func(qo structs.QueryOptions) (any, uint64, error) {
			var r structs.IndexedNodeDump
			err := internal.NodeDump(&structs.DCSpecificRequest{Datacenter: dc, QueryOptions: qo}, &r)
			return r.Dump, r.Index, err
		}},
		{"internal-peered-upstreams", func(qo structs.QueryOptions) (any, uint64, error) {
			var r structs.IndexedPeeredServiceList
			err := internal.PeeredUpstreams(&structs.PartitionSpecificRequest{Datacenter: dc, QueryOptions: qo}, &r)
			return r.Services, r.Index, err
		}},
		{"config-entry-list", func(qo structs.QueryOptions) (any, uint64, error) {
			var r structs.IndexedConfigEntries
			err := cfg.List(&structs.ConfigEntryQuery{Datacenter: dc, Kind: structs.ServiceDefaults, QueryOptions: qo}, &r)
			return r.Entries, r.Index, err
		}},
		{"prepared-query-list", func(qo structs.QueryOptions) (any, uint64, error) {
			var r structs.IndexedPreparedQueries
			err := (&PreparedQuery{srv: s, logger: lg}).List(&structs.DCSpecificRequest{Datacenter: dc, QueryOptions: qo}, &r)
			return r.Queries, r.Index, err
		}},
		{"intention-list", func(qo structs.QueryOptions) (any, uint64, error) {
			var r structs.IndexedIntentions
			err := (&Intention{srv: s, logger: lg}).List(&structs.IntentionListRequest{Datacenter: dc, QueryOptions: qo}, &r)
			return r.Intentions, r.Index, err
		}},
		{"health-service-checks", func(qo structs.QueryOptions) (any, uint64, error) {
			var r structs.IndexedHealthChecks
			err := health.ServiceChecks(&structs.ServiceSpecificRequest{Datacenter: dc, ServiceName: "web", QueryOptions: qo}, &r)
			return r.HealthChecks, r.Index, err
		}},
		{"coordinate-node", func(qo structs.QueryOptions) (any, uint64, error) {
			var r structs.IndexedCoordinates
			err := coord.Node(&structs.NodeSpecificRequest{Datacenter: dc, Node: "n1", QueryOptions: qo}, &r)
			return r.Coordinates, r.Index, err
		}},
		{"catalog-node-service-list", func(qo structs.QueryOptions) (any, uint64, error) {
			var r structs.IndexedNodeServiceList
			err := cat.NodeServiceList(&structs.NodeSpecificRequest{Datacenter: dc, Node: "n1", QueryOptions: qo}, &r)
			return r.NodeServices, r.Index, err
		}},
		{"config-entry-list-all", func(qo structs.QueryOptions) (any, uint64, error) {
			var r structs.IndexedGenericConfigEntries
			err := cfg.ListAll(&structs.ConfigEntryListAllRequest{Datacenter: dc, Kinds: structs.AllConfigEntryKinds, QueryOptions: qo}, &r)
			return r.Entries, r.Index, err
		}},
		{"config-entry-get", func(qo structs.QueryOptions) (any, uint64, error) {
			var r structs.ConfigEntryResponse
			err := cfg.Get(&structs.ConfigEntryQuery{Datacenter: dc, Kind: structs.ServiceDefaults, Name: "web", QueryOptions: qo}, &r)
			return r.Entry, r.Index, err
		}},
		{"session-get", func(qo structs.QueryOptions) (any, uint64, error) {
			var r structs.IndexedSessions
			err := sess.Get(&structs.SessionSpecificRequest{Datacenter: dc, SessionID: "a0000000-0000-0000-0000-000000000001", QueryOptions: qo}, &r)
			return r.Sessions, r.Index, err
		}},
		{"health-checks-in-state", func(qo structs.QueryOptions) (any, uint64, error) {
			var r structs.IndexedHealthChecks
			err := health.ChecksInState(&structs.ChecksInStateRequest{Datacenter: dc, State: "critical", QueryOptions: qo}, &r)
			return r.HealthChecks, r.Index, err
		}},
	}
}

type vWrite struct {
	name string
	do   func(idx uint64)
}

func vCatalogWrites(s *Server) []vWrite {
	store := s.fsm.State()
	must := func(err error) {
		if err != nil {
			panic(err)
		}
	}
	return []vWrite{
		{"register-n1-web", func(idx uint64) {
			must(store.EnsureRegistration(idx, &structs.RegisterRequest{Node: "n1", Address: "10.0.0.1",
				Service: &structs.NodeService{ID: "web1", Service: "web", Port: 80},
				Check:   &structs.HealthCheck{Node: "n1", CheckID: "c1", Name: "c1", Status: "passing", ServiceID: "web1"}}))
		}},
		{"register-n2-native", func(idx uint64) {
			must(store.EnsureRegistration(idx, &structs.RegisterRequest{Node: "n2", Address: "10.0.0.2",
				Service: &structs.NodeService{ID: "api1", Service: "api", Port: 81, Connect: structs.ServiceConnect{Native: true}}}))
		}},
		{"deregister-n1", func(idx uint64) { must(store.DeleteNode(idx, "n1", nil, "")) }},
		{"deregister-web1", func(idx uint64) { _ = store.DeleteService(idx, "n1", "web1", nil, "") }},
		{"check-critical", func(idx uint64) {
			_ = store.EnsureCheck(idx, &structs.HealthCheck{Node: "n1", CheckID: "c1", Name: "c1", Status: "critical", ServiceID: "web1"})
		}},
		{"session-create", func(idx uint64) {
			_ = store.SessionCreate(idx, &structs.Session{ID: "a0000000-0000-0000-0000-000000000001", Node: "n1", Behavior: structs.SessionKeysRelease})
		}},
		{"session-destroy", func(idx uint64) {
			_ = store.SessionDestroy(idx, "a0000000-0000-0000-0000-000000000001", nil)
		}},
		{"coordinate-update", func(idx uint64) {
			_ = store.CoordinateBatchUpdate(idx, structs.Coordinates{{Node: "n1", Coord: coordinate.NewCoordinate(coordinate.DefaultConfig())}})
		}},
		{"config-entry-set", func(idx uint64) {
			_ = store.EnsureConfigEntry(idx, &structs.ServiceConfigEntry{Kind: structs.ServiceDefaults, Name: "web", Protocol: "http"})
		}},
		{"config-entry-delete", func(idx uint64) {
			_ = store.DeleteConfigEntry(idx, structs.ServiceDefaults, "web", nil)
		}},
		{"prepared-query-set", func(idx uint64) {
			_ = store.PreparedQuerySet(idx, &structs.PreparedQuery{ID: "a0000000-0000-0000-0000-0000000000f1", Name: "q1", Service: structs.ServiceQuery{Service: "web"}})
		}},
		{"intention-set", func(idx uint64) {
			e := &structs.ServiceIntentionsConfigEntry{Kind: structs.ServiceIntentions, Name: "web",
				Sources: []*structs.SourceIntention{{Name: "api", Action: structs.IntentionActionAllow}}}
			if e.Normalize() == nil && e.Validate() == nil {
				_ = store.EnsureConfigEntry(idx, e)
			}
		}},
		{"kv-set", func(idx uint64) { must(store.KVSSet(idx, &structs.DirEntry{Key: "k", Value: []byte("v")})) }},
	}
}

var _ = acl.EnterpriseMeta{}
var _ = types.NodeID("")

func VerifC06_BlockingEndpoints_Setup() any {
	s, _ := vPartialServer(false)
	return s
}

func VerifC06_BlockingEndpoints(st any) {
	s := st.(*Server)
	store := s.fsm.State()
	if verifrt.Bool("virtual-ips-enabled") {
		if err := store.SystemMetadataSet(1, &structs.SystemMetadataEntry{Key: structs.SystemMetadataVirtualIPsEnabled, Value: "true"}); err != nil {
			panic(err)
		}
	}
	// the node the sessions, checks and coordinates of the write family hang on exists from the start
	// (bare: no services), so that one earlier write is enough to create a session or a check on it
	if verifrt.Bool("n1-exists") {
		if err := store.EnsureNode(5, &structs.Node{Node: "n1", Address: "10.0.0.1"}); err != nil {
			panic(err)
		}
	}
	writes := vCatalogWrites(s)
	idx := uint64(10)
	// history: 0..2 earlier writes (any of the family), then the write that arrives while parked
	// (histories of two earlier writes: 90 000 paths, about an hour - not registered in any tier)
	maxHist := 1
	nh := verifrt.Choice("history.len", maxHist+1)
	for i := 0; i < nh; i++ {
		idx += 10
		writes[verifrt.Choice("history."+string(rune('0'+i)), len(writes))].do(idx)
	}
	w := writes[verifrt.Choice("write", len(writes))]
	eps := vReadEndpoints(s)
	ep := eps[verifrt.Choice("endpoint", len(eps))]
	tag := "C06.rpc." + ep.name + "." + w.name
	r0, m, err0 := ep.call(structs.QueryOptions{})
	verifrt.Assert(tag+".first-read-no-error", err0 == nil)
	verifrt.Assert("C06.rpc."+ep.name+".index-not-zero", m != 0)
	widx := idx + 10
	vWhileBlocked(s, func() { w.do(widx) })
	r1, i1, err1 := ep.call(structs.QueryOptions{MinQueryIndex: m, MaxQueryTime: 2 * time.Second})
	r2, i2, err2 := ep.call(structs.QueryOptions{})
	verifrt.Assert(tag+".no-error", err1 == nil && err2 == nil)
	verifrt.Assert("C06.rpc."+ep.name+".blocked-index-not-zero", i1 != 0 && i2 != 0)
	verifrt.Assert(tag+".blocked-read-returns-the-current-result", reflect.DeepEqual(r1, r2) && i1 <= i2)
	if !reflect.DeepEqual(r0, r1) {
		verifrt.Assert(tag+".changed-result-has-greater-index", i1 > m)
		verifrt.Reached("changed")
	} else {
		verifrt.Reached("unchanged")
	}
}
