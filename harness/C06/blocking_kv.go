//go:build verif

package state

import (
	"bytes"

	memdb "github.com/hashicorp/go-memdb"

	"github.com/hashicorp/consul/agent/structs"
	"github.com/hashicorp/consul/internal/verifrt"
)

// C06: if the data a query returns changes, the index reported with the new
// result is strictly greater than the one reported with the old result, the
// index never decreases (except through tombstone reaping), and a watcher
// registered by the old query is woken.

type vKVSnap struct {
	present        bool
	value          byte
	flags, lock    uint64
	session        string
	create, modify uint64
}

func vSnapEntry(e *structs.DirEntry) vKVSnap {
	if e == nil {
		return vKVSnap{}
	}
	v := byte(0)
	if len(e.Value) > 0 {
		v = e.Value[0]
	}
	return vKVSnap{true, v, e.Flags, e.LockIndex, e.Session, e.CreateIndex, e.ModifyIndex}
}

type vListSnap struct {
	keys []string
	ents []vKVSnap
}

func vSnapList(ents structs.DirEntries) vListSnap {
	var l vListSnap
	for _, e := range ents {
		l.keys = append(l.keys, e.Key)
		l.ents = append(l.ents, vSnapEntry(e))
	}
	return l
}

func vSameList(a, b vListSnap) bool {
	if len(a.keys) != len(b.keys) {
		return false
	}
	for i := range a.keys {
		if a.keys[i] != b.keys[i] || a.ents[i] != b.ents[i] {
			return false
		}
	}
	return true
}

// vKVWrite performs one arbitrary KV write at idx.
func vKVWrite(s *Store, idx uint64, keyLen int) string {
	key := vKey("w.key", keyLen)
	verb := verifrt.Choice("w.verb", 7)
	switch verb {
	case 0:
		s.KVSSet(idx, &structs.DirEntry{Key: key, Value: vVal("w.val"), Flags: verifrt.U64("w.flags")})
	case 1:
		s.KVSSetCAS(idx, &structs.DirEntry{Key: key, Value: vVal("w.val"), Flags: verifrt.U64("w.flags"),
			RaftIndex: structs.RaftIndex{ModifyIndex: verifrt.U64("w.cidx")}})
	case 2:
		s.KVSDelete(idx, key, nil)
	case 3:
		s.KVSDeleteCAS(idx, verifrt.U64("w.cidx"), key, nil)
	case 4:
		p := key
		if verifrt.Bool("w.emptyprefix") {
			p = ""
		}
		s.KVSDeleteTree(idx, p, nil)
	case 5:
		s.KVSLock(idx, &structs.DirEntry{Key: key, Value: vVal("w.val"), Session: vSessionChoice("w.session", 3)})
	case 6:
		s.KVSUnlock(idx, &structs.DirEntry{Key: key, Value: vVal("w.val"), Session: vSessionChoice("w.session", 3)})
	}
	return []string{"set", "cas", "delete", "deletecas", "deletetree", "lock", "unlock"}[verb]
}

func VerifC06_KVGet_Setup() any { return vNewStore() }

func vC06Bounds() (int, int) {
	if verifrt.Thorough() {
		return 2, 2
	}
	return 1, 2
}

func VerifC06_KVGet(st any) {
	s := st.(*Store)
	maxKV, keyLen := vC06Bounds()
	m, idx := vKVPreState(s, maxKV, keyLen, true, 2)
	_ = m
	q := vKey("q.key", keyLen)
	ws := memdb.NewWatchSet()
	i0, e0, err0 := s.KVSGet(ws, q, nil)
	r0 := vSnapEntry(e0)
	w := vKVWrite(s, idx, keyLen)
	i1, e1, err1 := s.KVSGet(nil, q, nil)
	r1 := vSnapEntry(e1)
	verifrt.Assert("C06.kvget.no-error", err0 == nil && err1 == nil)
	verifrt.Assert("C06.kvget."+w+".index-never-decreases", i1 >= i0)
	if r0 != r1 {
		verifrt.Assert("C06.kvget."+w+".changed-result-has-greater-index", i1 > i0)
		verifrt.Assert("C06.kvget."+w+".changed-result-wakes-watcher", vFiredWS(ws))
		verifrt.Reached("changed")
	} else {
		verifrt.Reached("unchanged")
	}
}

func vFiredWS(ws memdb.WatchSet) bool {
	for ch := range ws {
		select {
		case <-ch:
			return true
		default:
		}
	}
	return false
}

func VerifC06_KVList_Setup() any { return vNewStore() }

func VerifC06_KVList(st any) {
	s := st.(*Store)
	maxKV, keyLen := vC06Bounds()
	_, idx := vKVPreState(s, maxKV, keyLen, true, 1)
	plen := verifrt.Choice("q.prefixlen", keyLen+1)
	prefix := verifrt.StrN("q.prefix", plen)
	for i := 0; i < len(prefix); i++ {
		verifrt.Assume(prefix[i] != 0)
	}
	ws := memdb.NewWatchSet()
	i0, l0, err0 := s.KVSList(ws, prefix, nil)
	r0 := vSnapList(l0)
	w := vKVWrite(s, idx, keyLen)
	i1, l1, err1 := s.KVSList(nil, prefix, nil)
	r1 := vSnapList(l1)
	verifrt.Assert("C06.kvlist.no-error", err0 == nil && err1 == nil)
	verifrt.Assert("C06.kvlist."+w+".index-never-decreases", i1 >= i0)
	if !vSameList(r0, r1) {
		verifrt.Assert("C06.kvlist."+w+".changed-result-has-greater-index", i1 > i0)
		verifrt.Assert("C06.kvlist."+w+".changed-result-wakes-watcher", vFiredWS(ws))
		verifrt.Reached("changed")
	} else {
		verifrt.Reached("unchanged")
	}
}

var _ = bytes.Equal
