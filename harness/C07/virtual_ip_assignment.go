//go:build verif

package state

import (
	"strings"

	"github.com/hashicorp/consul/agent/netutil"
	"github.com/hashicorp/consul/agent/structs"
	"github.com/hashicorp/consul/internal/verifrt"
)

// C07, virtual IPs: after any catalog/config-entry mutation no two services
// share a virtual IP, and a virtual IP advertised by any catalog instance
// (its own "consul-virtual" address, or a terminating gateway's
// "consul-virtual:<service>" addresses) equals that service's current
// assignment.

func vVIPInvariants(s *Store, pfx string) {
	seen := map[string]string{}
	for _, r := range vDump(s, tableServiceVirtualIPs) {
		row := r.(ServiceVirtualIP)
		ip := row.IP.String()
		other, dup := seen[ip]
		verifrt.Assert(pfx+".no-two-services-share-a-virtual-ip", !dup || other == row.Service.ServiceName.Name)
		seen[ip] = row.Service.ServiceName.Name
	}
	vip := func(name string) string {
		v, err := s.VirtualIPForService(structs.PeeredServiceName{ServiceName: structs.NewServiceName(name, nil)})
		if err != nil {
			panic(err)
		}
		return v
	}
	for _, r := range vDump(s, tableServices) {
		sn := r.(*structs.ServiceNode)
		for key, addr := range sn.ServiceTaggedAddresses {
			switch {
			case key == structs.TaggedAddressVirtualIP:
				name := sn.ServiceName
				if sn.ServiceKind == structs.ServiceKindConnectProxy {
					name = sn.ServiceProxy.DestinationServiceName
				}
				verifrt.Assert(pfx+".advertised-virtual-ip-is-the-current-assignment", addr.Address == vip(name))
			case strings.HasPrefix(key, structs.TaggedAddressVirtualIP+":"):
				name := strings.TrimPrefix(key, structs.TaggedAddressVirtualIP+":")
				if i := strings.LastIndex(name, "/"); i >= 0 {
					name = name[i+1:]
				}
				verifrt.Assert(pfx+".gateway-advertises-the-current-assignment", addr.Address == vip(name))
			}
		}
	}
}

func VerifC07_VirtualIPs() {
	netutil.GetAgentBindAddrFunc = netutil.GetMockGetAgentBindAddrFunc("0.0.0.0")
	s := NewStateStore(nil)
	must := func(err error) {
		if err != nil {
			panic(err)
		}
	}
	must(s.SystemMetadataSet(1, &structs.SystemMetadataEntry{Key: structs.SystemMetadataVirtualIPsEnabled, Value: "true"}))
	must(s.SystemMetadataSet(2, &structs.SystemMetadataEntry{Key: structs.SystemMetadataTermGatewayVirtualIPsEnabled, Value: "true"}))
	must(s.EnsureNode(3, &structs.Node{Node: "n1", Address: "10.0.0.1"}))
	idx := uint64(3)
	next := func() uint64 { idx++; return idx }

	// gateways that refer to api: an ingress gateway (sorts before the terminating one) and a terminating gateway
	hasIngress := verifrt.Bool("ingress")
	hasTerm := verifrt.Bool("terminating")
	if hasIngress {
		must(s.EnsureConfigEntry(next(), &structs.IngressGatewayConfigEntry{Kind: structs.IngressGateway, Name: "igw",
			Listeners: []structs.IngressListener{{Port: 8080, Protocol: "tcp", Services: []structs.IngressService{{Name: "api"}}}}}))
	}
	if hasTerm {
		must(s.EnsureConfigEntry(next(), &structs.TerminatingGatewayConfigEntry{Kind: structs.TerminatingGateway, Name: "tgate",
			Services: []structs.LinkedService{{Name: "api"}}}))
		if verifrt.Bool("terminating.instance") {
			must(s.EnsureService(next(), "n1", &structs.NodeService{Kind: structs.ServiceKindTerminatingGateway, ID: "tgate", Service: "tgate", Port: 8443}))
		}
	}
	hasAPI := verifrt.Bool("api")
	if hasAPI {
		must(s.EnsureService(next(), "n1", &structs.NodeService{ID: "api1", Service: "api", Port: 9000}))
	}
	hasWeb := verifrt.Bool("web")
	if hasWeb {
		must(s.EnsureService(next(), "n1", &structs.NodeService{ID: "web", Service: "web", Port: 8081, Connect: structs.ServiceConnect{Native: true}}))
	}
	vVIPInvariants(s, "C07.vip.pre")

	op := verifrt.Choice("op", 5)
	switch op {
	case 0:
		if !hasAPI {
			verifrt.Assume(false)
		}
		must(s.DeleteService(next(), "n1", "api1", nil, ""))
	case 1:
		if !hasWeb {
			verifrt.Assume(false)
		}
		must(s.DeleteService(next(), "n1", "web", nil, ""))
	case 2:
		if !hasTerm {
			verifrt.Assume(false)
		}
		must(s.DeleteConfigEntry(next(), structs.TerminatingGateway, "tgate", nil))
	case 3:
		if !hasIngress {
			verifrt.Assume(false)
		}
		must(s.DeleteConfigEntry(next(), structs.IngressGateway, "igw", nil))
	case 4:
		must(s.DeleteNode(next(), "n1", nil, ""))
		must(s.EnsureNode(next(), &structs.Node{Node: "n1", Address: "10.0.0.1"}))
	}
	name := []string{"delete-api", "delete-web", "delete-terminating-gateway-entry", "delete-ingress-gateway-entry", "delete-node"}[op]
	vVIPInvariants(s, "C07.vip."+name)
	// the next assignment must not reuse an address that is still advertised
	must(s.EnsureService(next(), "n1", &structs.NodeService{ID: "late", Service: "late", Port: 8082, Connect: structs.ServiceConnect{Native: true}}))
	vVIPInvariants(s, "C07.vip."+name+".then-register")
	vUsageInvariants(s, "C07.vip."+name)
	verifrt.Reached("end")
}
