//go:build verif

package state

import (
	"net"

	"github.com/hashicorp/consul/internal/verifrt"
)

// C07 (virtual IPs): the arithmetic that turns stored offsets into addresses
// is injective, so distinct stored assignments are distinct addresses, and the
// byte-wise counter increment is +1 on the 32-bit value.

func vIP4(tag string) net.IP {
	return net.IP{verifrt.U8(tag + ".0"), verifrt.U8(tag + ".1"), verifrt.U8(tag + ".2"), verifrt.U8(tag + ".3")}
}

func vU32(ip net.IP) uint32 {
	ip = ip.To4()
	return uint32(ip[0])<<24 | uint32(ip[1])<<16 | uint32(ip[2])<<8 | uint32(ip[3])
}

func VerifC07_VirtualIPv4Arithmetic() {
	base := vIP4("base")
	a, b := vIP4("a"), vIP4("b")
	ra, err1 := addIPv4Offset(base, a)
	rb, err2 := addIPv4Offset(base, b)
	verifrt.Assert("C07.vip.v4.no-error", err1 == nil && err2 == nil)
	verifrt.Assert("C07.vip.v4.is-32-bit-addition", vU32(ra) == vU32(base)+vU32(a))
	verifrt.Assert("C07.vip.v4.distinct-offsets-give-distinct-addresses", vU32(a) == vU32(b) || vU32(ra) != vU32(rb))
	// the counter increment of assignServiceVirtualIP
	c := vIP4("counter")
	n := make(net.IP, len(c))
	copy(n, c)
	for i := len(n) - 1; i >= 0; i-- {
		n[i]++
		if n[i] != 0 {
			break
		}
	}
	verifrt.Assert("C07.vip.counter-increment-is-plus-one", vU32(n) == vU32(c)+1)
	verifrt.Reached("end")
}

func VerifC07_VirtualIPv6Arithmetic() {
	base := make(net.IP, 16)
	a := make(net.IP, 16)
	b := make(net.IP, 16)
	same := verifrt.Bool("same")
	for i := 0; i < 16; i++ {
		t := string(rune('a' + i))
		base[i], a[i] = verifrt.U8("base."+t), verifrt.U8("a."+t)
		b[i] = a[i]
		if !same && i >= 12 {
			// offsets differ only in the low 32 bits (the allocator's range)
			b[i] = verifrt.U8("b." + t)
		}
	}
	// a 16-byte address that is not an IPv4-mapped one
	verifrt.Assume(base[0] == 0xfd)
	ra, err1 := addIPv6Offset(base, a)
	rb, err2 := addIPv6Offset(base, b)
	verifrt.Assert("C07.vip.v6.no-error", err1 == nil && err2 == nil)
	equalOff, equalRes := true, true
	for i := 0; i < 16; i++ {
		if a[i] != b[i] {
			equalOff = false
		}
		if ra[i] != rb[i] {
			equalRes = false
		}
	}
	verifrt.Assert("C07.vip.v6.distinct-offsets-give-distinct-addresses", equalOff || !equalRes)
	verifrt.Reached("end")
}
