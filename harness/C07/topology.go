//go:build verif

package state

import (
	"github.com/hashicorp/consul/agent/netutil"
	"github.com/hashicorp/consul/agent/structs"
	"github.com/hashicorp/consul/api"
	"github.com/hashicorp/consul/internal/verifrt"
)

// C07, upstream/downstream topology: after any mutation the mesh-topology
// table equals what is recomputed from the registered sidecars: one row per
// (upstream, downstream) pair that some sidecar declares, referencing exactly
// the sidecar instances that declare it.

func vTopologyInvariants(s *Store, pfx string) {
	type pair struct{ up, down string }
	want := map[pair]map[string]bool{}
	for _, r := range vDump(s, tableServices) {
		sn := r.(*structs.ServiceNode)
		if sn.ServiceKind != structs.ServiceKindConnectProxy {
			continue
		}
		sid := sn.CompoundServiceID()
		uid := structs.UniqueID(sn.Node, sid.String())
		for _, u := range sn.ServiceProxy.Upstreams {
			if u.DestinationType == structs.UpstreamDestTypePreparedQuery {
				continue
			}
			p := pair{u.DestinationName, sn.ServiceProxy.DestinationServiceName}
			if want[p] == nil {
				want[p] = map[string]bool{}
			}
			want[p][uid] = true
		}
	}
	rows := vDump(s, tableMeshTopology)
	seen := map[pair]bool{}
	for _, r := range rows {
		m := r.(*upstreamDownstream)
		p := pair{m.Upstream.Name, m.Downstream.Name}
		seen[p] = true
		refs := want[p]
		verifrt.Assert(pfx+".no-topology-row-without-a-declaring-sidecar", len(refs) > 0)
		verifrt.Assert(pfx+".topology-row-references-exactly-the-declaring-sidecars", len(m.Refs) == len(refs))
		for uid := range m.Refs {
			verifrt.Assert(pfx+".topology-row-references-exactly-the-declaring-sidecars", refs[uid])
		}
	}
	for p := range want {
		verifrt.Assert(pfx+".declared-upstream-has-a-topology-row", seen[p])
	}
}

func vSidecar(id, dest string, ups ...string) *structs.NodeService {
	ns := &structs.NodeService{Kind: structs.ServiceKindConnectProxy, ID: id, Service: id, Port: 21000,
		Proxy: structs.ConnectProxyConfig{DestinationServiceName: dest}}
	for _, u := range ups {
		ns.Proxy.Upstreams = append(ns.Proxy.Upstreams, structs.Upstream{DestinationName: u})
	}
	return ns
}

func vUpstreamChoice(tag string) []string {
	switch verifrt.Choice(tag, 4) {
	case 1:
		return []string{"db"}
	case 2:
		return []string{"cache"}
	case 3:
		return []string{"db", "cache"}
	}
	return nil
}

func VerifC07_Topology() {
	netutil.GetAgentBindAddrFunc = netutil.GetMockGetAgentBindAddrFunc("0.0.0.0")
	s := NewStateStore(nil)
	must := func(err error) {
		if err != nil {
			panic(err)
		}
	}
	must(s.EnsureNode(1, &structs.Node{Node: "n1", Address: "10.0.0.1"}))
	must(s.EnsureNode(2, &structs.Node{Node: "n2", Address: "10.0.0.2"}))
	idx := uint64(2)
	next := func() uint64 { idx++; return idx }
	// sidecars: p1 (for web, on n1), optionally p2 (for web or api, on n2) sharing upstreams with p1
	must(s.EnsureService(next(), "n1", vSidecar("p1", "web", vUpstreamChoice("p1.upstreams")...)))
	hasP2 := verifrt.Bool("p2")
	if hasP2 {
		dest := []string{"web", "api"}[verifrt.Choice("p2.dest", 2)]
		must(s.EnsureService(next(), "n2", vSidecar("p2", dest, vUpstreamChoice("p2.upstreams")...)))
	}
	vTopologyInvariants(s, "C07.topology.pre")

	op := verifrt.Choice("op", 8)
	switch op {
	case 0:
		must(s.DeleteService(next(), "n1", "p1", nil, ""))
	case 1:
		if !hasP2 {
			verifrt.Assume(false)
		}
		must(s.DeleteService(next(), "n2", "p2", nil, ""))
	case 2: // p1 registered again with other upstreams
		must(s.EnsureService(next(), "n1", vSidecar("p1", "web", vUpstreamChoice("p1.new-upstreams")...)))
	case 3: // p1 now fronts another service
		must(s.EnsureService(next(), "n1", vSidecar("p1", "api", vUpstreamChoice("p1.new-upstreams")...)))
	case 4:
		must(s.DeleteNode(next(), "n1", nil, ""))
	case 5: // the same sidecar id registered on the other node as well
		must(s.EnsureService(next(), "n2", vSidecar("p1", "web", vUpstreamChoice("p1.other-node-upstreams")...)))
	case 6: // a transaction that deregisters p1 fails and is rolled back; p1 is deregistered for real afterwards
		_, errs := s.TxnRW(next(), structs.TxnOps{
			{Service: &structs.TxnServiceOp{Verb: api.ServiceDelete, Node: "n1", Service: structs.NodeService{ID: "p1"}}},
			{KV: &structs.TxnKVOp{Verb: api.KVCheckNotExists, DirEnt: structs.DirEntry{Key: "no-such-key-exists", Session: ""}}},
			{KV: &structs.TxnKVOp{Verb: api.KVCheckIndex, DirEnt: structs.DirEntry{Key: "no-such-key", RaftIndex: structs.RaftIndex{ModifyIndex: 7}}}},
		})
		verifrt.Assume(len(errs) > 0)
		vTopologyInvariants(s, "C07.topology.after-failed-transaction")
		must(s.DeleteService(next(), "n1", "p1", nil, ""))
	case 7: // the instance p1 is registered again as another kind of mesh service
		kind := []structs.ServiceKind{structs.ServiceKindMeshGateway, structs.ServiceKindIngressGateway, structs.ServiceKindTypical}[verifrt.Choice("p1.new-kind", 3)]
		must(s.EnsureService(next(), "n1", &structs.NodeService{Kind: kind, ID: "p1", Service: "p1", Port: 21000}))
	}
	name := []string{"delete-p1", "delete-p2", "p1-new-upstreams", "p1-new-destination", "delete-node", "same-id-other-node", "failed-txn-then-delete-p1", "p1-new-kind"}[op]
	vTopologyInvariants(s, "C07.topology."+name)
	vUsageInvariants(s, "C07.topology."+name)
	verifrt.Reached("end")
}

// usage counts equal what is recomputed from the node and service tables
func vUsageInvariants(s *Store, pfx string) {
	nodes := len(vDump(s, tableNodes))
	names := map[string]bool{}
	instances := 0
	byKind := map[string]int{}
	for _, r := range vDump(s, tableServices) {
		sn := r.(*structs.ServiceNode)
		names[sn.ServiceName] = true
		instances++
		switch {
		case sn.ServiceConnect.Native:
			byKind["connect-native"]++
		case sn.ServiceKind != structs.ServiceKindTypical:
			byKind[string(sn.ServiceKind)]++
		}
	}
	_, nu, err := s.NodeUsage()
	verifrt.Assert(pfx+".node-usage-agrees", err == nil && nu.Nodes == nodes)
	_, su, err := s.ServiceUsage(nil, false)
	verifrt.Assert(pfx+".service-usage-agrees", err == nil && su.Services == len(names) && su.ServiceInstances == instances)
	for _, k := range []string{"connect-native", "connect-proxy", "terminating-gateway", "ingress-gateway", "mesh-gateway"} {
		verifrt.Assert(pfx+".connect-usage-agrees", su.ConnectServiceInstances[k] == byKind[k])
	}
}
