//go:build verif

package state

import (
	"github.com/hashicorp/serf/coordinate"

	"github.com/hashicorp/consul/agent/structs"
	"github.com/hashicorp/consul/api"
	"github.com/hashicorp/consul/internal/verifrt"
)

// C07: no orphans, complete cascades, derived views agree with registrations.
// States are built through the store's API; after one more mutation the raw
// tables are dumped and the invariants recomputed from the registrations.

func VerifC07_Integrity_Setup() any {
	s := NewStateStore(nil)
	if err := s.EnsureNode(1, &structs.Node{Node: "n1", Address: "10.0.0.1"}); err != nil {
		panic(err)
	}
	if err := s.EnsureNode(2, &structs.Node{Node: "n2", Address: "10.0.0.2"}); err != nil {
		panic(err)
	}
	return s
}

func vC07Invariants(s *Store, pfx string) {
	nodes := map[string]bool{}
	for _, r := range vDump(s, tableNodes) {
		nodes[r.(*structs.Node).Node] = true
	}
	type inst struct{ node, id string }
	instances := map[inst]bool{}
	names := map[string]int{}
	for _, r := range vDump(s, tableServices) {
		sn := r.(*structs.ServiceNode)
		verifrt.Assert(pfx+".no-service-without-node", nodes[sn.Node])
		instances[inst{sn.Node, sn.ServiceID}] = true
		names[sn.ServiceName]++
	}
	for _, r := range vDump(s, tableChecks) {
		hc := r.(*structs.HealthCheck)
		verifrt.Assert(pfx+".no-check-without-node", nodes[hc.Node])
		if hc.ServiceID != "" {
			verifrt.Assert(pfx+".no-service-check-without-instance", instances[inst{hc.Node, hc.ServiceID}])
		}
	}
	for _, r := range vDump(s, tableCoordinates) {
		verifrt.Assert(pfx+".no-coordinate-without-node", nodes[r.(*structs.Coordinate).Node])
	}
	// derived view: service names by kind
	_, kinds, err := s.ServiceNamesOfKind(nil, structs.ServiceKindTypical)
	verifrt.Assert(pfx+".kind-names-readable", err == nil)
	seen := map[string]bool{}
	for _, k := range kinds {
		seen[k.Service.Name] = true
	}
	for n := range names {
		verifrt.Assert(pfx+".registered-name-is-in-kind-names", seen[n])
	}
	// derived view: service list and usage counts
	_, list, err := s.ServiceList(nil, nil, "")
	verifrt.Assert(pfx+".service-list-agrees", err == nil && len(list) == len(names))
	_, usage, err := s.ServiceUsage(nil, false)
	total := 0
	for _, c := range names {
		total += c
	}
	verifrt.Assert(pfx+".usage-counts-agree", err == nil && usage.Services == len(names) && usage.ServiceInstances == total)
	// every registered name has its per-service index entry (used by blocking queries)
	for n := range names {
		verifrt.Assert(pfx+".service-index-entry-present", vHasIndexRow(s, serviceIndexName(n, nil, "")))
	}
	// (last, so that the recorded finding about renames does not hide the assertions above)
	for _, k := range kinds {
		verifrt.Assert(pfx+".kind-name-has-an-instance", names[k.Service.Name] > 0)
	}
}

func VerifC07_Integrity(st any) {
	s := st.(*Store)
	next := uint64(10)
	tick := func() uint64 { next++; return next }
	must := func(err error) {
		if err != nil {
			panic(err)
		}
	}
	must(s.EnsureService(tick(), "n1", &structs.NodeService{ID: "web1", Service: "web", Port: 80}))
	if verifrt.Bool("web2") {
		must(s.EnsureService(tick(), "n2", &structs.NodeService{ID: "web2", Service: "web", Port: 80}))
	}
	if verifrt.Bool("service-named-like-an-id") {
		// a different service whose name equals another instance's id
		must(s.EnsureService(tick(), "n2", &structs.NodeService{ID: "x", Service: "web1", Port: 81}))
	}
	if verifrt.Bool("db") {
		must(s.EnsureService(tick(), "n1", &structs.NodeService{ID: "db", Service: "db", Port: 5432}))
	}
	if verifrt.Bool("service-check") {
		must(s.EnsureCheck(tick(), &structs.HealthCheck{Node: "n1", CheckID: "c-web1", ServiceID: "web1", Status: api.HealthPassing}))
	}
	if verifrt.Bool("node-check") {
		must(s.EnsureCheck(tick(), &structs.HealthCheck{Node: "n1", CheckID: "c-n1", Status: api.HealthPassing}))
	}
	if verifrt.Bool("coordinate") {
		must(s.CoordinateBatchUpdate(tick(), structs.Coordinates{{Node: "n1", Coord: coordinate.NewCoordinate(coordinate.DefaultConfig())}}))
	}
	vC07Invariants(s, "C07.pre")

	idx := verifrt.U64("idx")
	verifrt.Assume(idx > next)
	op := verifrt.Choice("op", 7)
	switch op {
	case 0:
		must(s.DeleteService(idx, "n1", "web1", nil, ""))
	case 1:
		if err := s.DeleteService(idx, "n2", "web2", nil, ""); err != nil {
			verifrt.Assume(false) // not registered on this path
		}
	case 2:
		must(s.DeleteNode(idx, "n1", nil, ""))
	case 3:
		must(s.DeleteNode(idx, "n2", nil, ""))
	case 4:
		if err := s.DeleteService(idx, "n2", "x", nil, ""); err != nil {
			verifrt.Assume(false)
		}
	case 5:
		must(s.EnsureService(idx, "n2", &structs.NodeService{ID: "web9", Service: "web", Port: 82}))
	case 6:
		// the instance web1 is registered again under another service name
		must(s.EnsureService(idx, "n1", &structs.NodeService{ID: "web1", Service: "api", Port: 80}))
	}
	name := []string{"deregister-web1", "deregister-web2", "deregister-n1", "deregister-n2", "deregister-x", "register-web9", "rename-web1"}[op]
	vC07Invariants(s, "C07."+name)
	// cascades
	switch op {
	case 2:
		for _, r := range vDump(s, tableServices) {
			verifrt.Assert("C07.deregister-node-removes-its-services", r.(*structs.ServiceNode).Node != "n1")
		}
		for _, r := range vDump(s, tableChecks) {
			verifrt.Assert("C07.deregister-node-removes-its-checks", r.(*structs.HealthCheck).Node != "n1")
		}
		verifrt.Assert("C07.deregister-node-removes-its-coordinates", len(vDump(s, tableCoordinates)) == 0)
	case 0:
		for _, r := range vDump(s, tableChecks) {
			verifrt.Assert("C07.deregister-service-removes-its-checks", r.(*structs.HealthCheck).ServiceID != "web1")
		}
	}
	verifrt.Reached(name)
}
