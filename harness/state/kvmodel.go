//go:build verif

package state

// Reference model of the KV store: a sequential versioned map with per-key
// create/modify index, flags, lock counter and holder, a tombstone list and the
// two table indexes. One step function per verb. Used by C03, C05, C06, C10.

import (
	"bytes"

	"github.com/hashicorp/consul/agent/structs"
	"github.com/hashicorp/consul/internal/verifrt"
)

const (
	vSessA = "aaaaaaaa-aaaa-aaaa-aaaa-aaaaaaaaaaaa"
	vSessB = "bbbbbbbb-bbbb-bbbb-bbbb-bbbbbbbbbbbb"
	vSessC = "cccccccc-cccc-cccc-cccc-cccccccccccc" // never stored in the sessions table
)

type vKV struct {
	key            string
	value          []byte
	flags          uint64
	session        string
	lockIndex      uint64
	create, modify uint64
}

type vTomb struct {
	key   string
	index uint64
}

type vKVModel struct {
	kv       []vKV
	tombs    []vTomb
	kvsIdx   uint64 // index["kvs"]
	tombIdx  uint64 // index["tombstones"]
	sessions []string
}

func (m *vKVModel) find(key string) int {
	for i := range m.kv {
		if m.kv[i].key == key {
			return i
		}
	}
	return -1
}

func (m *vKVModel) hasSession(s string) bool {
	for _, x := range m.sessions {
		if x == s {
			return true
		}
	}
	return false
}

func (m *vKVModel) addTomb(key string, idx uint64) {
	for i := range m.tombs {
		if m.tombs[i].key == key {
			m.tombs[i].index = idx
			m.tombIdx = idx
			return
		}
	}
	m.tombs = append(m.tombs, vTomb{key, idx})
	m.tombIdx = idx
}

// set: plain write. Holder and create index of an existing key are kept; a
// write that changes nothing changes no index.
func (m *vKVModel) set(idx uint64, key string, value []byte, flags, lockIndex uint64) {
	i := m.find(key)
	if i < 0 {
		m.kv = append(m.kv, vKV{key, value, flags, "", lockIndex, idx, idx})
		m.kvsIdx = idx
		return
	}
	e := &m.kv[i]
	if e.lockIndex == lockIndex && e.flags == flags && bytes.Equal(e.value, value) {
		return
	}
	e.value, e.flags, e.lockIndex, e.modify = value, flags, lockIndex, idx
	m.kvsIdx = idx
}

func (m *vKVModel) cas(idx, cidx uint64, key string, value []byte, flags, lockIndex uint64) bool {
	i := m.find(key)
	if cidx == 0 {
		if i >= 0 {
			return false
		}
	} else if i < 0 || m.kv[i].modify != cidx {
		return false
	}
	m.set(idx, key, value, flags, lockIndex)
	return true
}

func (m *vKVModel) del(idx uint64, key string) {
	i := m.find(key)
	if i < 0 {
		return
	}
	m.kv = append(m.kv[:i:i], m.kv[i+1:]...)
	m.addTomb(key, idx)
	m.kvsIdx = idx
}

// delCAS: deleting a key that does not exist succeeds trivially.
func (m *vKVModel) delCAS(idx, cidx uint64, key string) bool {
	i := m.find(key)
	if i < 0 {
		return true
	}
	if m.kv[i].modify != cidx {
		return false
	}
	m.del(idx, key)
	return true
}

func (m *vKVModel) delTree(idx uint64, prefix string) {
	var keep []vKV
	n := 0
	for _, e := range m.kv {
		if verifrt.HasPrefix(e.key, prefix) {
			n++
		} else {
			keep = append(keep, e)
		}
	}
	if n == 0 {
		return
	}
	m.kv = keep
	if prefix != "" {
		m.addTomb(prefix, idx)
	} else {
		// the whole tree is gone: no tombstone can stand for it; older tombstones
		// are dropped so that every listing falls back to the table index
		m.tombs = nil
	}
	m.kvsIdx = idx
}

// lock returns (acquired, isError).
func (m *vKVModel) lock(idx uint64, key, session string, value []byte, flags uint64) (bool, bool) {
	if session == "" || !m.hasSession(session) {
		return false, true
	}
	i := m.find(key)
	if i < 0 {
		m.kv = append(m.kv, vKV{key, value, flags, session, 1, idx, idx})
		m.kvsIdx = idx
		return true, false
	}
	e := &m.kv[i]
	switch {
	case e.session == session:
		// re-acquisition: counter unchanged
		if e.flags == flags && bytes.Equal(e.value, value) {
			return true, false
		}
	case e.session != "":
		return false, false
	default:
		e.lockIndex++
		e.session = session
	}
	e.value, e.flags, e.modify = value, flags, idx
	m.kvsIdx = idx
	return true, false
}

func (m *vKVModel) unlock(idx uint64, key, session string, value []byte, flags uint64) (bool, bool) {
	if session == "" {
		return false, true
	}
	i := m.find(key)
	if i < 0 || m.kv[i].session != session {
		return false, false
	}
	e := &m.kv[i]
	e.session = ""
	e.value, e.flags, e.modify = value, flags, idx
	m.kvsIdx = idx
	return true, false
}

func (m *vKVModel) reap(upTo uint64) {
	var keep []vTomb
	for _, t := range m.tombs {
		if t.index > upTo {
			keep = append(keep, t)
		}
	}
	m.tombs = keep
}

// ---- symbolic pre-state shared by the KV harnesses ---------------------------

func vKey(tag string, maxLen int) string {
	n := 1 + verifrt.Choice(tag+".len", maxLen)
	s := verifrt.StrN(tag, n)
	for i := 0; i < len(s); i++ {
		verifrt.Assume(s[i] != 0)
	}
	return s
}

func vVal(tag string) []byte {
	return []byte{verifrt.U8(tag)}
}

func vSessionChoice(tag string, n int) string {
	switch verifrt.Choice(tag, n) {
	case 1:
		return vSessA
	case 2:
		return vSessB
	case 3:
		return vSessC
	}
	return ""
}

// vKVPreState fills the store with an arbitrary valid KV state (nKV keys of
// length <= keyLen, up to one tombstone, sessions A and B) and returns the model
// holding the same content, plus an operation index above every stored index.
func vKVPreState(s *Store, maxKV, keyLen int, withTomb bool, sessChoices int) (*vKVModel, uint64) {
	m := &vKVModel{sessions: []string{vSessA, vSessB}}
	for _, id := range m.sessions {
		vRawInsert(s, tableSessions, &structs.Session{ID: id, Node: "n1", Behavior: structs.SessionKeysRelease,
			RaftIndex: structs.RaftIndex{CreateIndex: 1, ModifyIndex: 1}})
	}
	vSetIndex(s, tableSessions, 1)
	n := verifrt.Choice("nkv", maxKV+1)
	kvsIdx := verifrt.U64("index.kvs")
	for i := 0; i < n; i++ {
		tag := "kv" + string(rune('0'+i))
		e := vKV{key: vKey(tag+".key", keyLen), value: vVal(tag + ".val"), flags: verifrt.U64(tag + ".flags"),
			session: vSessionChoice(tag+".session", sessChoices), lockIndex: verifrt.U64(tag + ".lock")}
		ri := vRaftIndex(tag)
		e.create, e.modify = ri.CreateIndex, ri.ModifyIndex
		verifrt.Assume(e.modify <= kvsIdx)
		if i > 0 {
			// WLOG: the stored set is enumerated in key order (kills symmetric pre-states)
			verifrt.Assume(verifrt.StrLess(m.kv[i-1].key, e.key))
		}
		m.kv = append(m.kv, e)
		vRawInsert(s, tableKVs, &structs.DirEntry{Key: e.key, Value: e.value, Flags: e.flags, Session: e.session,
			LockIndex: e.lockIndex, RaftIndex: ri})
	}
	if n > 0 || verifrt.Bool("kvsidx.present") {
		verifrt.Assume(kvsIdx >= 1)
		vSetIndex(s, tableKVs, kvsIdx)
		m.kvsIdx = kvsIdx
	}
	top := m.kvsIdx
	if withTomb && verifrt.Bool("tomb.present") {
		t := vTomb{vKey("tomb.key", keyLen), verifrt.U64("tomb.index")}
		tIdx := verifrt.U64("index.tombstones")
		verifrt.Assume(t.index >= 1 && t.index <= tIdx)
		m.tombs = append(m.tombs, t)
		m.tombIdx = tIdx
		vRawInsert(s, tableTombstones, &Tombstone{Key: t.key, Index: t.index})
		vSetIndex(s, tableTombstones, tIdx)
		if tIdx > top {
			top = tIdx
		}
	}
	idx := verifrt.U64("idx")
	verifrt.Assume(idx > top && idx > 1)
	return m, idx
}

// vKVAgree compares the real store's committed KV state with the model.
func vKVAgree(s *Store, m *vKVModel) bool {
	rows := vDump(s, tableKVs)
	if len(rows) != len(m.kv) {
		return false
	}
	for _, r := range rows {
		d := r.(*structs.DirEntry)
		i := m.find(d.Key)
		if i < 0 {
			return false
		}
		e := m.kv[i]
		if !(bytes.Equal(d.Value, e.value) && d.Flags == e.flags && d.Session == e.session &&
			d.LockIndex == e.lockIndex && d.CreateIndex == e.create && d.ModifyIndex == e.modify) {
			return false
		}
	}
	return true
}

func vTombsAgree(s *Store, m *vKVModel) bool {
	rows := vDump(s, tableTombstones)
	if len(rows) != len(m.tombs) {
		return false
	}
	for _, r := range rows {
		t := r.(*Tombstone)
		found := false
		for _, mt := range m.tombs {
			if mt.key == t.Key && mt.index == t.Index {
				found = true
			}
		}
		if !found {
			return false
		}
	}
	return true
}
