//go:build verif

package state

// Shared helpers for the /verif harnesses of package state: raw construction
// of arbitrary (symbolic) table contents on a real go-memdb store, and dumps.

import (
	"github.com/hashicorp/consul/agent/structs"
	"github.com/hashicorp/consul/internal/verifrt"
)

// vNewStore is the setup shared by all state harnesses: an empty real store.
func vNewStore() any { return NewStateStore(nil) }

// vRawInsert inserts rows directly (no index bookkeeping) and commits.
func vRawInsert(s *Store, table string, rows ...any) {
	tx := s.db.WriteTxnRestore()
	for _, r := range rows {
		if err := tx.Insert(table, r); err != nil {
			panic("vRawInsert " + table + ": " + err.Error())
		}
	}
	if err := tx.Commit(); err != nil {
		panic(err)
	}
}

func vSetIndex(s *Store, key string, v uint64) {
	vRawInsert(s, tableIndex, &IndexEntry{Key: key, Value: v})
}

func vIndex(s *Store, key string) uint64 {
	tx := s.db.ReadTxn()
	defer tx.Abort()
	return maxIndexTxn(tx, key)
}

// vHasIndexRow reports whether the index table has a row for key.
func vHasIndexRow(s *Store, key string) bool {
	tx := s.db.ReadTxn()
	defer tx.Abort()
	ti, err := tx.First(tableIndex, indexID, key)
	return err == nil && ti != nil
}

func vDump(s *Store, table string) []any {
	tx := s.db.ReadTxn()
	defer tx.Abort()
	it, err := tx.Get(table, indexID)
	if err != nil {
		panic(err)
	}
	var out []any
	for r := it.Next(); r != nil; r = it.Next() {
		out = append(out, r)
	}
	return out
}

func vRaftIndex(tag string) structs.RaftIndex {
	c := verifrt.U64(tag + ".create")
	m := verifrt.U64(tag + ".modify")
	verifrt.Assume(c >= 1 && c <= m)
	return structs.RaftIndex{CreateIndex: c, ModifyIndex: m}
}
