//go:build verif

package acl

import "github.com/hashicorp/consul/internal/verifrt"

func VerifSmoke_Enforce() {
	a := AccessLevel(verifrt.Int("access", 0, 4))
	r := AccessLevel(verifrt.Int("req", 0, 4))
	d := enforce(a, r)
	if a == AccessDeny {
		verifrt.Assert("deny-denies", d == Deny)
	}
	if a == AccessWrite && r != AccessUnknown && r != AccessDeny {
		verifrt.Assert("write-allows", d == Allow)
	}
	verifrt.Reached("end")
}

func VerifSmoke_Str() {
	s := verifrt.Str("s", 3)
	t := verifrt.Str("t", 3)
	if s == t {
		verifrt.Assert("len-eq", len(s) == len(t))
	}
	if len(s) > 0 && len(t) > 0 && s < t {
		verifrt.Assert("first-byte-le", s[0] <= t[0])
		verifrt.Assert("bogus-first-byte-lt", s[0] < t[0])
	}
	m := map[string]int{"a": 1}
	m[s] = 2
	if len(s) == 1 && s[0] == 'a' {
		verifrt.Assert("overwrote", m["a"] == 2 && len(m) == 1)
	} else {
		verifrt.Assert("added", len(m) == 2 && m["a"] == 1)
	}
	verifrt.Reached("end")
}
