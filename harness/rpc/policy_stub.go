//go:build verif

package consul

import (
	"strings"

	"github.com/hashicorp/consul/acl"
	"github.com/hashicorp/consul/agent/structs"
	"github.com/hashicorp/consul/api"
	"github.com/hashicorp/consul/internal/verifrt"
)

// Engine-only stand-in for acl.NewPolicyFromSource: the real parser decodes HCL through
// reflection (reflect.Value.Set/MakeSlice/...), which the engine does not interpret. The stub
// reads the rule language's block form
//
//	<kind> "<name>" { policy = "<level>" [intentions = "<level>"] }
//
// (the form of every synthetic identity policy and of the policies the harnesses write) and
// panics on anything else. Natively the real parser runs.
func vInstallPolicyParserStub() {
	if !verifrt.Symbolic() {
		return
	}
	verifrt.Replace("github.com/hashicorp/consul/acl.NewPolicyFromSource",
		func(rules string, conf *acl.Config, meta *acl.EnterprisePolicyMeta) (*acl.Policy, error) {
			return vParseRules(rules), nil
		})
	// Synthetic policies of node and service identities are rendered with text/template (reflection) from
	// go:embed-ed template files (filled in by the linker): the stub renders copies of the two identity
	// templates (agent/structs/acltemplatedpolicy/policies/ce/node.hcl and service.hcl).
	verifrt.Replace("(*github.com/hashicorp/consul/agent/structs.ACLTemplatedPolicy).aclTemplatedPolicyRules",
		func(tp *structs.ACLTemplatedPolicy, entMeta *acl.EnterpriseMeta) (string, error) {
			name := ""
			if tp.TemplateVariables != nil {
				name = tp.TemplateVariables.Name
			}
			switch tp.TemplateName {
			case api.ACLTemplatedPolicyNodeName:
				return "\nnode \"" + name + "\" {\n\tpolicy = \"write\"\n}\nservice_prefix \"\" {\n\tpolicy = \"read\"\n}", nil
			case api.ACLTemplatedPolicyServiceName:
				return "\nservice \"" + name + "\" {\n\tpolicy = \"write\"\n}\nservice \"" + name + "-sidecar-proxy\" {\n\tpolicy = \"write\"\n}\n" +
					"service_prefix \"\" {\n\tpolicy = \"read\"\n}\nnode_prefix \"\" {\n\tpolicy = \"read\"\n}", nil
			}
			panic("templated policy stub: unsupported template " + tp.TemplateName)
		})
}

func vParseRules(rules string) *acl.Policy {
	p := &acl.Policy{}
	f := strings.Fields(strings.NewReplacer("{", " { ", "}", " } ", "=", " = ").Replace(rules))
	unq := func(s string) string {
		if len(s) < 2 || s[0] != '"' || s[len(s)-1] != '"' {
			panic("policy stub: expected a quoted string, got " + s)
		}
		return s[1 : len(s)-1]
	}
	for i := 0; i < len(f); {
		if i+2 >= len(f) || f[i+2] != "{" {
			panic("policy stub: unsupported rule syntax near " + f[i])
		}
		kind, name := f[i], unq(f[i+1])
		i += 3
		level, intentions := "", ""
		for f[i] != "}" {
			if f[i+1] != "=" {
				panic("policy stub: expected '='")
			}
			switch f[i] {
			case "policy":
				level = unq(f[i+2])
			case "intentions":
				intentions = unq(f[i+2])
			default:
				panic("policy stub: unsupported attribute " + f[i])
			}
			i += 3
		}
		i++
		switch kind {
		case "agent":
			p.Agents = append(p.Agents, &acl.AgentRule{Node: name, Policy: level})
		case "agent_prefix":
			p.AgentPrefixes = append(p.AgentPrefixes, &acl.AgentRule{Node: name, Policy: level})
		case "key":
			p.Keys = append(p.Keys, &acl.KeyRule{Prefix: name, Policy: level})
		case "key_prefix":
			p.KeyPrefixes = append(p.KeyPrefixes, &acl.KeyRule{Prefix: name, Policy: level})
		case "node":
			p.Nodes = append(p.Nodes, &acl.NodeRule{Name: name, Policy: level})
		case "node_prefix":
			p.NodePrefixes = append(p.NodePrefixes, &acl.NodeRule{Name: name, Policy: level})
		case "service":
			p.Services = append(p.Services, &acl.ServiceRule{Name: name, Policy: level, Intentions: intentions})
		case "service_prefix":
			p.ServicePrefixes = append(p.ServicePrefixes, &acl.ServiceRule{Name: name, Policy: level, Intentions: intentions})
		case "session":
			p.Sessions = append(p.Sessions, &acl.SessionRule{Node: name, Policy: level})
		case "session_prefix":
			p.SessionPrefixes = append(p.SessionPrefixes, &acl.SessionRule{Node: name, Policy: level})
		default:
			panic("policy stub: unsupported rule kind " + kind)
		}
	}
	return p
}
