//go:build verif

package consul

// A partial Server for the /verif harnesses: enough of agent/consul.Server for the read
// endpoints (KVS, Session, Catalog, Health, Internal, ConfigEntry, ...) to run as they do in a
// real server: ForwardRPC (this server is the leader of the request's datacenter), token
// resolution through the real ACLResolver, blockingquery.Query, SetQueryMeta and the endpoint's
// own code on a real FSM/state store. There is no raft, no serf, no RPC listener and no
// goroutine; writes are made through the state store API directly.

import (
	"context"
	"sync/atomic"
	"time"

	"github.com/hashicorp/go-hclog"
	memdb "github.com/hashicorp/go-memdb"
	"github.com/hashicorp/raft"

	"github.com/hashicorp/consul/acl"
	"github.com/hashicorp/consul/agent/consul/fsm"
	"github.com/hashicorp/consul/agent/consul/state"
	"github.com/hashicorp/consul/agent/consul/stream"
	"github.com/hashicorp/consul/agent/structs"
	"github.com/hashicorp/consul/internal/verifrt"
	"github.com/hashicorp/consul/agent/netutil"
)

type vSrvBackend struct {
	ACLResolverBackend
	tokens   map[string]*structs.ACLToken
	policies map[string]*structs.ACLPolicy
	roles    map[string]*structs.ACLRole
}

func (b *vSrvBackend) ResolveIdentityFromToken(token string) (bool, structs.ACLIdentity, error) {
	if t, ok := b.tokens[token]; ok {
		return true, t, nil
	}
	return true, nil, acl.ErrNotFound
}

func (b *vSrvBackend) ResolvePolicyFromID(id string) (bool, *structs.ACLPolicy, error) {
	if p, ok := b.policies[id]; ok {
		return true, p, nil
	}
	return true, nil, acl.ErrNotFound
}

func (b *vSrvBackend) ResolveRoleFromID(id string) (bool, *structs.ACLRole, error) {
	if r, ok := b.roles[id]; ok {
		return true, r, nil
	}
	return true, nil, acl.ErrNotFound
}

func (b *vSrvBackend) IsServerManagementToken(string) bool { return false }
func (b *vSrvBackend) ACLDatacenter() string               { return "dc1" }

// vPartialServer returns a leader Server of datacenter dc1 over a fresh FSM. With aclsOn the
// resolver is enabled (default policy deny) and resolves the tokens/policies put into the backend.
func vPartialServer(aclsOn bool) (*Server, *vSrvBackend) {
	// virtual IP assignment asks the local agent for its bind address over HTTP otherwise
	netutil.GetAgentBindAddrFunc = netutil.GetMockGetAgentBindAddrFunc("0.0.0.0")
	logger := hclog.NewInterceptLogger(&hclog.LoggerOptions{Level: hclog.Off})
	r := &raft.Raft{}
	verifrt.SetUnexported(r, "state", uint32(raft.Leader))
	cfg := DefaultConfig()
	cfg.Datacenter = "dc1"
	cfg.PrimaryDatacenter = "dc1"
	cfg.ConnectEnabled = true
	f := fsm.NewFromDeps(fsm.Deps{Logger: logger, StorageBackend: fsm.NullStorageBackend,
		NewStateStore: func() *state.Store {
			return state.NewStateStoreWithEventPublisher(nil, stream.NoOpEventPublisher{})
		}})
	s := &Server{config: cfg, raft: r, fsm: f, logger: logger, loggers: newLoggerStore(logger),
		shutdownCh: make(chan struct{})}
	be := &vSrvBackend{tokens: map[string]*structs.ACLToken{}, policies: map[string]*structs.ACLPolicy{}}
	if aclsOn {
		// every server holds the anonymous token (created when ACLs are bootstrapped)
		be.tokens[anonymousSecretID] = &structs.ACLToken{AccessorID: anonymousAccessorID, SecretID: anonymousSecretID}
		vInstallPolicyParserStub()
		cfg.ACLsEnabled = true
		cfg.ACLResolverSettings.ACLsEnabled = true
		cfg.ACLResolverSettings.ACLDefaultPolicy = "deny"
		cfg.ACLResolverSettings.ACLDownPolicy = "deny"
		cfg.ACLResolverSettings.Datacenter = "dc1"
		rs, err := NewACLResolver(&ACLResolverConfig{
			Config:      cfg.ACLResolverSettings,
			Logger:      logger,
			Backend:     be,
			ACLConfig:   newACLConfig(&partitionInfoNoop{}, logger),
			DisableDuration: 0,
		})
		if err != nil {
			panic(err)
		}
		s.ACLResolver = rs
	} else {
		s.ACLResolver = &ACLResolver{config: ACLResolverSettings{ACLsEnabled: false}}
	}
	return s, be
}

// vWhileBlocked arranges for write() to be committed while the next blocking query is parked
// in WatchSet.WatchCtx: after the query function's first pass and before its second.
// Under the engine WatchCtx is replaced by a stub that commits the write and then reports
// "woken" if a watched channel fired, "deadline exceeded" otherwise (a second call always
// reports the deadline). Natively a goroutine commits the write once the server counts a
// blocked query, and the request's MaxQueryTime bounds the wait.
func vWhileBlocked(s *Server, write func()) {
	if !verifrt.Symbolic() {
		go func() {
			for i := 0; i < 5000 && atomic.LoadUint64(&s.queriesBlocking) == 0; i++ {
				time.Sleep(time.Millisecond)
			}
			time.Sleep(60 * time.Millisecond)
			write()
		}()
		return
	}
	// the deadline of the blocking query is not a timer here: the stub below decides when the wait ends
	verifrt.Replace("context.WithTimeout", func(parent context.Context, d time.Duration) (context.Context, context.CancelFunc) {
		return parent, func() {}
	})
	verifrt.Replace("github.com/hashicorp/consul/lib.RandomStagger", func(intv time.Duration) time.Duration { return 0 })
	done := false
	verifrt.Replace("(github.com/hashicorp/go-memdb.WatchSet).WatchCtx", func(ws memdb.WatchSet, ctx context.Context) error {
		if !done {
			done = true
			write()
			for ch := range ws {
				select {
				case <-ch:
					return nil
				default:
				}
			}
		}
		return context.DeadlineExceeded
	})
}
