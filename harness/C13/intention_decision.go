//go:build verif

package state

import (
	"sort"

	"github.com/hashicorp/consul/agent/connect"
	"github.com/hashicorp/consul/agent/structs"
	"github.com/hashicorp/consul/internal/verifrt"
)

// C13: the decision for (source, destination) is the action of the single most
// specific matching intention (destination specificity first, then source), the
// default policy when none matches, whatever the order the intentions are in.

func vIxnName(tag string) string {
	if verifrt.Bool(tag + ".wild") {
		return structs.WildcardSpecifier
	}
	return vExactName(tag)
}

func vExactName(tag string) string {
	n := verifrt.StrN(tag, 1)
	verifrt.Assume(n != structs.WildcardSpecifier)
	// config entry names are indexed case-insensitively: names are lower-case ASCII here
	verifrt.Assume(n[0] < 0x80 && !(n[0] >= 'A' && n[0] <= 'Z'))
	return n
}

func vIxn(tag string, withPeer bool) *structs.Intention {
	x := &structs.Intention{
		SourceNS: "default", DestinationNS: "default",
		SourceName: vIxnName(tag + ".src"), DestinationName: vIxnName(tag + ".dst"),
		Action: structs.IntentionActionAllow,
	}
	if verifrt.Bool(tag + ".deny") {
		x.Action = structs.IntentionActionDeny
	}
	if withPeer && verifrt.Bool(tag+".peered") {
		x.SourcePeer = "p1"
		if vTwoPeers && verifrt.Bool(tag+".peer2") {
			x.SourcePeer = "p2"
		}
	}
	return x
}

// vTwoPeers: sources may come from two different peers (only where the order among peers matters)
var vTwoPeers bool

// specificity rank of a matching intention: exact destination outranks
// wildcard destination; within that, exact source outranks wildcard source.
func vRank(x *structs.Intention) int {
	r := 0
	if x.DestinationName != structs.WildcardSpecifier {
		r += 2
	}
	if x.SourceName != structs.WildcardSpecifier {
		r++
	}
	return r
}

func vMatches(x *structs.Intention, src, srcPeer, dst string) bool {
	return (x.DestinationName == structs.WildcardSpecifier || x.DestinationName == dst) &&
		(x.SourceName == structs.WildcardSpecifier || x.SourceName == src) && x.SourcePeer == srcPeer
}

func VerifC13_Decision() {
	// (4 intentions did not finish in 45 minutes; the thorough tier deepens the peered variant instead)
	vC13Decision(3, false)
}

// the same with peered sources (one fewer intention)
func VerifC13_DecisionPeered() {
	n := 2
	if verifrt.Thorough() {
		n = 3
	}
	vC13Decision(n, true)
}

func vC13Decision(n int, withPeer bool) {
	k := 1 + verifrt.Choice("n", n)
	var ixns structs.Intentions
	for i := 0; i < k; i++ {
		x := vIxn("ixn"+string(rune('0'+i)), withPeer)
		for _, y := range ixns {
			// an intention is identified by its (source, destination) pair
			verifrt.Assume(!(x.SourceName == y.SourceName && x.DestinationName == y.DestinationName && x.SourcePeer == y.SourcePeer))
		}
		x.UpdatePrecedence()
		ixns = append(ixns, x)
	}
	src := verifrt.StrN("src", 1)
	dst := verifrt.StrN("dst", 1)
	verifrt.Assume(src != structs.WildcardSpecifier && dst != structs.WildcardSpecifier)
	srcPeer := ""
	if withPeer && verifrt.Bool("src.peered") {
		srcPeer = "p1"
	}
	defaultAllow := verifrt.Bool("defaultAllow")

	// the real pipeline: intentions matching the destination, in precedence order, then the decision on the source
	var matched structs.Intentions
	for _, x := range ixns {
		if connect.IntentionMatch(dst, "default", "", "", x, structs.IntentionMatchDestination) {
			matched = append(matched, x)
		}
	}
	sort.Sort(structs.IntentionPrecedenceSorter(matched))
	for i := 1; i < len(matched); i++ {
		verifrt.Assert("C13.match-list-in-precedence-order", vRank(matched[i-1]) >= vRank(matched[i]))
	}
	var s *Store
	got, err := s.IntentionDecision(IntentionDecisionOpts{Target: src, Namespace: "default", Peer: srcPeer,
		Intentions: structs.SimplifiedIntentions(matched), MatchType: structs.IntentionMatchSource, DefaultAllow: defaultAllow})
	verifrt.Assert("C13.decision.no-error", err == nil)

	// specification
	best := -1
	for i, x := range ixns {
		if vMatches(x, src, srcPeer, dst) && (best < 0 || vRank(x) > vRank(ixns[best])) {
			best = i
		}
	}
	if best < 0 {
		verifrt.Assert("C13.decision.default-when-no-match", got.Allowed == defaultAllow)
		verifrt.Reached("default")
	} else {
		verifrt.Assert("C13.decision.most-specific-wins", got.Allowed == (ixns[best].Action == structs.IntentionActionAllow))
		verifrt.Reached("matched")
	}
}

// The sort comparator is a strict weak order that is total on distinct
// (source, destination) tuples, so the precedence order is well defined.
func VerifC13_LessIsStrictOrder() {
	var xs structs.Intentions
	for i := 0; i < 3; i++ {
		x := vIxn("ixn"+string(rune('0'+i)), true)
		x.UpdatePrecedence()
		xs = append(xs, x)
	}
	s := structs.IntentionPrecedenceSorter(xs)
	verifrt.Assert("C13.less.irreflexive", !s.Less(0, 0))
	verifrt.Assert("C13.less.asymmetric", !(s.Less(0, 1) && s.Less(1, 0)))
	verifrt.Assert("C13.less.transitive", !(s.Less(0, 1) && s.Less(1, 2)) || s.Less(0, 2))
	same := xs[0].SourceName == xs[1].SourceName && xs[0].DestinationName == xs[1].DestinationName && xs[0].SourcePeer == xs[1].SourcePeer
	verifrt.Assert("C13.less.total-on-distinct", same || s.Less(0, 1) || s.Less(1, 0))
	// precedence respects specificity
	verifrt.Assert("C13.precedence.respects-specificity", !(vRank(xs[0]) > vRank(xs[1])) || xs[0].Precedence > xs[1].Precedence)
	verifrt.Reached("end")
}


// Intentions that differ only in the peer of their source are ordered deterministically: the comparator is
// strict and total on them (local before peered, peers in a fixed order), so match and list results do not
// depend on the order in which sources were written.
func VerifC13_LessPeerTieBreak() {
	peers := []string{"", "p1", "p2"}
	mk := func(tag string) *structs.Intention {
		x := &structs.Intention{SourceNS: "default", DestinationNS: "default", SourceName: "web", DestinationName: "db",
			SourcePeer: peers[verifrt.Choice(tag+".peer", 3)], Action: structs.IntentionActionAllow}
		x.UpdatePrecedence()
		return x
	}
	xs := structs.Intentions{mk("a"), mk("b"), mk("c")}
	s := structs.IntentionPrecedenceSorter(xs)
	for i := 0; i < 3; i++ {
		for j := 0; j < 3; j++ {
			same := xs[i].SourcePeer == xs[j].SourcePeer
			verifrt.Assert("C13.less.peers.total-on-distinct", same || s.Less(i, j) || s.Less(j, i))
			verifrt.Assert("C13.less.peers.asymmetric", !(s.Less(i, j) && s.Less(j, i)))
			verifrt.Assert("C13.less.peers.irreflexive-on-equal", !same || !s.Less(i, j))
			for k := 0; k < 3; k++ {
				verifrt.Assert("C13.less.peers.transitive", !(s.Less(i, j) && s.Less(j, k)) || s.Less(i, k))
			}
		}
	}
	verifrt.Reached("end")
}
