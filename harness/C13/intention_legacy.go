//go:build verif

package state

import (
	"github.com/hashicorp/consul/agent/structs"
	"github.com/hashicorp/consul/internal/verifrt"
)

// C13, legacy representation: intentions are created and updated (same id,
// possibly another source/destination) through LegacyIntentionSet in an
// arbitrary order; the legacy memdb match queries and IntentionDecision must
// decide from the final set alone - a set reached through updates decides like
// the same set written directly.

// names are enumerated rather than symbolic here: with symbolic bytes every radix-tree comparison of the
// real memdb costs a solver query and the harness takes minutes instead of seconds
func vLegacyName(tag string, n int) string {
	return []string{structs.WildcardSpecifier, "a", "b"}[verifrt.Choice(tag, n)]
}

func VerifC13_Legacy() {
	s := NewStateStore(nil)
	ids := []string{"11111111-1111-1111-1111-111111111111", "22222222-2222-2222-2222-222222222222"}
	flip := verifrt.Bool("flip")
	act := func(deny bool) structs.IntentionAction {
		if deny {
			return structs.IntentionActionDeny
		}
		return structs.IntentionActionAllow
	}
	mk := func(tag string, id string, deny bool) *structs.Intention {
		return &structs.Intention{ID: id, SourceNS: "default", DestinationNS: "default",
			SourceName: vLegacyName(tag+".src", 3), DestinationName: vLegacyName(tag+".dst", 2), Action: act(deny)}
	}
	// history: create intention 1, optionally create intention 2, optionally update intention 1 (new names)
	final := map[string]*structs.Intention{}
	idx := uint64(10)
	write := func(x *structs.Intention) {
		idx++
		// a write the store refuses (duplicate source/destination pair) is not part of the history
		verifrt.Assume(s.LegacyIntentionSet(idx, x) == nil)
		final[x.ID] = x
	}
	first := mk("i1", ids[0], flip)
	two := verifrt.Bool("two")
	secondFirst := two && verifrt.Bool("second-first")
	if secondFirst {
		write(mk("i2", ids[1], !flip))
	}
	write(first)
	if two && !secondFirst {
		write(mk("i2", ids[1], !flip))
	}
	if verifrt.Bool("update") {
		write(mk("i1b", ids[0], flip))
	}

	var all []*structs.Intention
	for _, id := range ids {
		if x, ok := final[id]; ok {
			y := &structs.Intention{SourceNS: "default", DestinationNS: "default", SourceName: x.SourceName, DestinationName: x.DestinationName, Action: x.Action}
			y.UpdatePrecedence()
			all = append(all, y)
		}
	}
	src := []string{"a", "b", "c"}[verifrt.Choice("src", 3)]
	dst := []string{"a", "c"}[verifrt.Choice("dst", 2)]
	defaultAllow := verifrt.Bool("defaultAllow")
	best := -1
	for i, x := range all {
		if vMatches(x, src, "", dst) && (best < 0 || vRank(x) > vRank(all[best])) {
			best = i
		}
	}
	want := defaultAllow
	if best >= 0 {
		want = all[best].Action == structs.IntentionActionAllow
	}

	// by destination, decide on the source
	_, byDst, err := s.IntentionMatchOne(nil, structs.IntentionMatchEntry{Namespace: "default", Partition: "default", Name: dst},
		structs.IntentionMatchDestination, structs.IntentionTargetService)
	verifrt.Assert("C13.legacy.match-destination.no-error", err == nil)
	for i := 1; i < len(byDst); i++ {
		verifrt.Assert("C13.legacy.match-destination.in-precedence-order", vRank(byDst[i-1]) >= vRank(byDst[i]))
	}
	verifrt.Assert("C13.legacy.match-destination.first-matching-is-most-specific", vSameIxn(vFirstMatch(byDst, src, "", dst), best, all))
	got, err := s.IntentionDecision(IntentionDecisionOpts{Target: src, Namespace: "default", Partition: "default",
		Intentions: byDst, MatchType: structs.IntentionMatchSource, DefaultAllow: defaultAllow})
	verifrt.Assert("C13.legacy.decision-by-destination.most-specific-wins", err == nil && got.Allowed == want)

	// by source (Intention.Check), decide on the destination
	_, bySrc, err := s.IntentionMatchOne(nil, structs.IntentionMatchEntry{Namespace: "default", Partition: "default", Name: src},
		structs.IntentionMatchSource, structs.IntentionTargetService)
	verifrt.Assert("C13.legacy.match-source.no-error", err == nil)
	for i := 1; i < len(bySrc); i++ {
		verifrt.Assert("C13.legacy.match-source.in-precedence-order", vRank(bySrc[i-1]) >= vRank(bySrc[i]))
	}
	verifrt.Assert("C13.legacy.match-source.first-matching-is-most-specific", vSameIxn(vFirstMatch(bySrc, src, "", dst), best, all))
	got, err = s.IntentionDecision(IntentionDecisionOpts{Target: dst, Namespace: "default", Partition: "default",
		Intentions: bySrc, MatchType: structs.IntentionMatchDestination, DefaultAllow: defaultAllow})
	verifrt.Assert("C13.legacy.decision-by-source.most-specific-wins", err == nil && got.Allowed == want)

	// the list is in precedence order too
	_, list, _, err := s.Intentions(nil, nil)
	verifrt.Assert("C13.legacy.list.no-error", err == nil && len(list) == len(all))
	for i := 1; i < len(list); i++ {
		verifrt.Assert("C13.legacy.list.in-precedence-order", vRank(list[i-1]) >= vRank(list[i]))
	}
	if best < 0 {
		verifrt.Reached("default")
	} else {
		verifrt.Reached("matched")
	}
}
