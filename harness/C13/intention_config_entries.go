//go:build verif

package state

import (
	"github.com/hashicorp/consul/agent/netutil"
	"github.com/hashicorp/consul/agent/structs"
	"github.com/hashicorp/consul/internal/verifrt"
)

// C13, config-entry representation: service-intentions entries are written
// through Normalize/Validate/EnsureConfigEntry in an arbitrary order with
// their sources in an arbitrary order; the memdb match queries
// (IntentionMatchOne by destination and by source) followed by
// IntentionDecision must give the decision of the most specific intention
// matching the pair, and must return the matching intentions in precedence
// order.

type vC13Src struct {
	name   string
	peer   string
	action structs.IntentionAction
}

func vC13Source(tag string, withPeer bool, deny bool) vC13Src {
	s := vC13Src{name: structs.WildcardSpecifier, action: structs.IntentionActionAllow}
	if !verifrt.Bool(tag + ".wild") {
		s.name = vSmallName(tag, 'b')
	}
	if deny {
		s.action = structs.IntentionActionDeny
	}
	if withPeer && verifrt.Bool(tag+".peered") {
		s.peer = "p1"
	}
	return s
}

func vC13ConfigEntries(withPeer bool) {
	netutil.GetAgentBindAddrFunc = netutil.GetMockGetAgentBindAddrFunc("0.0.0.0")
	s := NewStateStore(nil)
	if err := s.SystemMetadataSet(1, &structs.SystemMetadataEntry{Key: structs.SystemMetadataIntentionFormatKey, Value: structs.SystemMetadataIntentionFormatConfigValue}); err != nil {
		panic(err)
	}

	// The intention set: entry 1 (exact or wildcard destination) with one or two sources in either order and,
	// optionally, entry 2 with the other kind of destination and one source, written before or after entry 1.
	// Actions alternate (flipped by one choice); which intention decides is also checked by identity below.
	var all []*structs.Intention // the intention set, as (source, destination) pairs
	type ent struct {
		dst  string
		srcs []vC13Src
	}
	var ents []ent
	flip := verifrt.Bool("flip")
	e1wild := verifrt.Bool("e1.dst.wild")
	e1 := ent{dst: structs.WildcardSpecifier}
	if !e1wild {
		e1.dst = vSmallName("e1.dst", 'b')
	}
	e1.srcs = append(e1.srcs, vC13Source("e1.s0", withPeer, flip))
	if verifrt.Bool("e1.two") {
		x := vC13Source("e1.s1", withPeer, !flip)
		verifrt.Assume(!(x.name == e1.srcs[0].name && x.peer == e1.srcs[0].peer))
		e1.srcs = append(e1.srcs, x)
	}
	ents = append(ents, e1)
	if !withPeer && verifrt.Bool("e2") {
		e2 := ent{dst: structs.WildcardSpecifier}
		if e1wild {
			e2.dst = vSmallName("e2.dst", 'b')
			verifrt.Assume(e2.dst != e1.dst)
		}
		e2.srcs = append(e2.srcs, vC13Source("e2.s0", withPeer, !flip))
		ents = append(ents, e2)
		if verifrt.Bool("e2.first") {
			ents[0], ents[1] = ents[1], ents[0]
		}
	}
	idx := uint64(10)
	for _, e := range ents {
		conf := &structs.ServiceIntentionsConfigEntry{Kind: structs.ServiceIntentions, Name: e.dst}
		for _, x := range e.srcs {
			conf.Sources = append(conf.Sources, &structs.SourceIntention{Name: x.name, Peer: x.peer, Action: x.action})
			ix := &structs.Intention{SourceNS: "default", DestinationNS: "default", SourceName: x.name, SourcePeer: x.peer,
				DestinationName: e.dst, Action: x.action}
			ix.UpdatePrecedence()
			all = append(all, ix)
		}
		err := conf.Normalize()
		if err == nil {
			err = conf.Validate()
		}
		if err == nil {
			idx++
			err = s.EnsureConfigEntry(idx, conf)
		}
		// a peered source with a wildcard name is refused by validation; such sets are not intention sets
		verifrt.Assume(err == nil)
	}

	src := vSmallName("src", 'c')
	dst := vSmallName("dst", 'c')
	srcPeer := ""
	if withPeer && verifrt.Bool("src.peered") {
		srcPeer = "p1"
	}
	defaultAllow := verifrt.Bool("defaultAllow")

	best := -1
	for i, x := range all {
		if vMatches(x, src, srcPeer, dst) && (best < 0 || vRank(x) > vRank(all[best])) {
			best = i
		}
	}
	want := defaultAllow
	if best >= 0 {
		want = all[best].Action == structs.IntentionActionAllow
	}

	// path A (connect authorize, xDS): match by destination, decide on the source
	_, byDst, err := s.IntentionMatchOne(nil, structs.IntentionMatchEntry{Namespace: "default", Partition: "default", Name: dst},
		structs.IntentionMatchDestination, structs.IntentionTargetService)
	verifrt.Assert("C13.config.match-destination.no-error", err == nil)
	nDst := 0
	for _, x := range all {
		if x.DestinationName == structs.WildcardSpecifier || x.DestinationName == dst {
			nDst++
		}
	}
	verifrt.Assert("C13.config.match-destination.complete", len(byDst) == nDst)
	for i := 1; i < len(byDst); i++ {
		verifrt.Assert("C13.config.match-destination.in-precedence-order", vRank(byDst[i-1]) >= vRank(byDst[i]))
	}
	verifrt.Assert("C13.config.match-destination.first-matching-is-most-specific", vSameIxn(vFirstMatch(byDst, src, srcPeer, dst), best, all))
	got, err := s.IntentionDecision(IntentionDecisionOpts{Target: src, Namespace: "default", Partition: "default", Peer: srcPeer,
		Intentions: byDst, MatchType: structs.IntentionMatchSource, DefaultAllow: defaultAllow})
	verifrt.Assert("C13.config.decision-by-destination.no-error", err == nil)
	verifrt.Assert("C13.config.decision-by-destination.most-specific-wins", got.Allowed == want)

	// path B (Intention.Check): match by source name, decide on the destination; the query names a local source
	if srcPeer == "" {
		_, bySrc, err := s.IntentionMatchOne(nil, structs.IntentionMatchEntry{Namespace: "default", Partition: "default", Name: src},
			structs.IntentionMatchSource, structs.IntentionTargetService)
		verifrt.Assert("C13.config.match-source.no-error", err == nil)
		// Source matches are keyed by local source name ("intention queries cannot use a peered service as a
		// source"): every local-source intention whose source is src or the wildcard is returned exactly once,
		// and nothing with another source name. (A peered source is returned as well when its entry also holds
		// a local source of the same name; that does not change which intention comes first.)
		nSrc, nGot := 0, 0
		for _, x := range all {
			if x.SourcePeer == "" && (x.SourceName == structs.WildcardSpecifier || x.SourceName == src) {
				nSrc++
			}
		}
		for _, x := range bySrc {
			if x.SourcePeer == "" {
				nGot++
			}
			verifrt.Assert("C13.config.match-source.only-matching-names", x.SourceName == structs.WildcardSpecifier || x.SourceName == src)
		}
		verifrt.Assert("C13.config.match-source.complete", nGot == nSrc)
		for i := 1; i < len(bySrc); i++ {
			verifrt.Assert("C13.config.match-source.in-precedence-order", vRank(bySrc[i-1]) >= vRank(bySrc[i]))
		}
		verifrt.Assert("C13.config.match-source.first-matching-is-most-specific", vSameIxn(vFirstMatch(bySrc, src, srcPeer, dst), best, all))
		got, err := s.IntentionDecision(IntentionDecisionOpts{Target: dst, Namespace: "default", Partition: "default",
			Intentions: bySrc, MatchType: structs.IntentionMatchDestination, DefaultAllow: defaultAllow})
		verifrt.Assert("C13.config.decision-by-source.no-error", err == nil)
		verifrt.Assert("C13.config.decision-by-source.most-specific-wins", got.Allowed == want)
	}
	// path C (match by source with the wildcard name, e.g. /v1/connect/intentions/match?by=source&name=*):
	// exactly the local intentions whose source is the wildcard, in precedence order
	if srcPeer == "" {
		_, byWild, err := s.IntentionMatchOne(nil, structs.IntentionMatchEntry{Namespace: "default", Partition: "default", Name: structs.WildcardSpecifier},
			structs.IntentionMatchSource, structs.IntentionTargetService)
		verifrt.Assert("C13.config.match-wildcard-source.no-error", err == nil)
		nW, nGot := 0, 0
		for _, x := range all {
			if x.SourcePeer == "" && x.SourceName == structs.WildcardSpecifier {
				nW++
			}
		}
		for _, x := range byWild {
			if x.SourcePeer == "" {
				nGot++
			}
			verifrt.Assert("C13.config.match-wildcard-source.only-wildcard-sources", x.SourceName == structs.WildcardSpecifier)
		}
		verifrt.Assert("C13.config.match-wildcard-source.complete", nGot == nW)
		for i := 1; i < len(byWild); i++ {
			verifrt.Assert("C13.config.match-wildcard-source.in-precedence-order", vRank(byWild[i-1]) >= vRank(byWild[i]))
		}
	}
	if best < 0 {
		verifrt.Reached("default")
	} else {
		verifrt.Reached("matched")
	}
}

// stored names are drawn from {a,b}, queried names from {a,b,c}: the radix trees of the real memdb branch on
// every byte comparison, so wider alphabets multiply the paths by the number of orderings of the names
func vSmallName(tag string, hi byte) string {
	n := verifrt.StrN(tag, 1)
	verifrt.Assume(n[0] >= 'a' && n[0] <= hi)
	return n
}

// the first intention of a match result that covers the pair (nil if none)
func vFirstMatch(xs structs.SimplifiedIntentions, src, srcPeer, dst string) *structs.Intention {
	for _, x := range xs {
		if vMatches(x, src, srcPeer, dst) {
			return x
		}
	}
	return nil
}

func vSameIxn(got *structs.Intention, best int, all []*structs.Intention) bool {
	if best < 0 {
		return got == nil
	}
	w := all[best]
	return got != nil && got.SourceName == w.SourceName && got.SourcePeer == w.SourcePeer && got.DestinationName == w.DestinationName && got.Action == w.Action
}

func VerifC13_ConfigEntries()       { vC13ConfigEntries(false) }
func VerifC13_ConfigEntriesPeered() { vC13ConfigEntries(true) }
