//go:build verif

package state

import "github.com/hashicorp/consul/internal/verifrt"

// C12 (serial numbers): every serial handed out is greater than every serial
// handed out before (inductive on the stored counter; 64-bit wrap excluded).
func VerifC12_SerialNumbers_Setup() any { return vNewStore() }

func VerifC12_SerialNumbers(st any) {
	s := st.(*Store)
	last := uint64(0)
	if verifrt.Bool("counter.present") {
		last = verifrt.U64("counter")
		vSetIndex(s, tableConnectCABuiltinSerial, last)
	} else if verifrt.Bool("legacy.present") {
		last = verifrt.U64("legacy.index")
		vSetIndex(s, tableConnectCABuiltin, last)
	}
	verifrt.Assume(last < 1<<63)
	idx := verifrt.U64("idx")
	a, err1 := s.CAIncrementProviderSerialNumber(idx)
	b, err2 := s.CAIncrementProviderSerialNumber(idx + 1)
	verifrt.Assert("C12.serial.no-error", err1 == nil && err2 == nil)
	verifrt.Assert("C12.serial.never-reused", a > last && b > a)
	verifrt.Assert("C12.serial.counter-stored", vIndex(s, tableConnectCABuiltinSerial) == b)
	verifrt.Reached("end")
}
