//go:build verif

package connect

import (
	"net/url"
	"strings"

	"github.com/hashicorp/consul/internal/verifrt"
)

// C12, trust domain: a service, mesh-gateway or server identity can be signed
// only if the authority of its URI is this cluster's trust domain - nothing
// more (no port, no user info, no query or fragment), compared without regard to ASCII case - and
// the identity parsed from the URI encodes the URI it was parsed from.

func VerifC12_TrustDomain() {
	const cluster = "11111111-2222-3333-4444-555555555555"
	signing := SpiffeIDSigningForCluster(cluster)
	td := cluster + ".consul"
	var host string
	switch verifrt.Choice("host", 6) {
	case 0:
		host = td
	case 1:
		host = strings.ToUpper(td)
	case 2:
		host = td + ":8443"
	case 3:
		port := verifrt.StrN("port", 1)
		verifrt.Assume(port[0] >= '0' && port[0] <= '9')
		host = td + ":" + port
	case 4:
		host = "user@" + td
	case 5:
		host = "other.consul"
	}
	var path string
	switch verifrt.Choice("kind", 3) {
	case 0:
		path = "/ns/default/dc/dc1/svc/web"
	case 1:
		path = "/gateway/mesh/dc/dc1"
	case 2:
		path = "/agent/server/dc/dc1"
	}
	u := &url.URL{Scheme: "spiffe", Host: host, Path: path}
	if strings.HasPrefix(host, "user@") {
		u.User, u.Host = url.User("user"), td
	}
	plain := u.User == nil
	switch verifrt.Choice("decoration", 3) {
	case 1:
		u.RawQuery, plain = "x=1", false
	case 2:
		u.Fragment, plain = "frag", false
	}
	id, err := ParseCertURI(u)
	if err != nil {
		verifrt.Reached("rejected-by-parser")
		return
	}
	sameDomain := plain && strings.ToLower(host) == td
	verifrt.Assert("C12.trust-domain.signable-iff-authority-is-the-trust-domain", signing.CanSign(id) == sameDomain)
	if signing.CanSign(id) {
		verifrt.Assert("C12.trust-domain.identity-encodes-the-requested-uri", strings.EqualFold(id.URI().String(), u.String()))
		verifrt.Reached("signable")
	} else {
		verifrt.Reached("not-signable")
	}
}
