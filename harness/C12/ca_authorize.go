//go:build verif

package consul

import (
	"crypto/x509"
	"net/url"
	"strings"

	"github.com/hashicorp/go-hclog"

	"github.com/hashicorp/consul/acl"
	"github.com/hashicorp/consul/agent/connect"
	"github.com/hashicorp/consul/internal/verifrt"
)

// C12: a leaf certificate is requested from the provider only when the CSR
// carries exactly one supported SPIFFE identity of this datacenter and the
// caller's token grants write on exactly that service, node or mesh scope.

type vCall struct {
	method string
	name   string
}

type vCAAuthz struct {
	acl.Authorizer
	calls *[]vCall
}

func (a vCAAuthz) rec(method, name string, uf string) acl.EnforcementDecision {
	*a.calls = append(*a.calls, vCall{method, name})
	if verifrt.UFBool(uf, name) {
		return acl.Allow
	}
	return acl.Deny
}
func (a vCAAuthz) ServiceWrite(n string, _ *acl.AuthorizerContext) acl.EnforcementDecision {
	return a.rec("ServiceWrite", n, "serviceWrite")
}
func (a vCAAuthz) ServiceRead(n string, _ *acl.AuthorizerContext) acl.EnforcementDecision {
	return a.rec("ServiceRead", n, "serviceRead")
}
func (a vCAAuthz) NodeWrite(n string, _ *acl.AuthorizerContext) acl.EnforcementDecision {
	return a.rec("NodeWrite", n, "nodeWrite")
}
func (a vCAAuthz) NodeRead(n string, _ *acl.AuthorizerContext) acl.EnforcementDecision {
	return a.rec("NodeRead", n, "nodeRead")
}
func (a vCAAuthz) MeshWrite(*acl.AuthorizerContext) acl.EnforcementDecision {
	return a.rec("MeshWrite", "", "meshWrite")
}
func (a vCAAuthz) MeshRead(*acl.AuthorizerContext) acl.EnforcementDecision {
	return a.rec("MeshRead", "", "meshRead")
}
func (a vCAAuthz) OperatorRead(*acl.AuthorizerContext) acl.EnforcementDecision {
	return a.rec("OperatorRead", "", "operatorRead")
}
func (a vCAAuthz) OperatorWrite(*acl.AuthorizerContext) acl.EnforcementDecision {
	return a.rec("OperatorWrite", "", "operatorWrite")
}
func (a vCAAuthz) ACLWrite(*acl.AuthorizerContext) acl.EnforcementDecision {
	return a.rec("ACLWrite", "", "aclWrite")
}
func (a vCAAuthz) ACLRead(*acl.AuthorizerContext) acl.EnforcementDecision {
	return a.rec("ACLRead", "", "aclRead")
}
func (a vCAAuthz) ToAllowAuthorizer() acl.AllowAuthorizer {
	return acl.AllowAuthorizer{Authorizer: a}
}

// the CA manager's server is not the leader and has no provider yet
type vCADelegate struct{ caServerDelegate }

func (vCADelegate) IsLeader() bool { return false }

// a path segment of 1..2 arbitrary bytes (may contain '/')
func vSeg(tag string) string {
	n := 1 + verifrt.Choice(tag+".len", 2)
	return verifrt.StrN(tag, n)
}

func vDC(tag string) string {
	if verifrt.Bool(tag + ".local") {
		return "dc1"
	}
	return "dc2"
}

func VerifC12_AuthorizeAndSign() {
	var calls []vCall
	authz := vCAAuthz{calls: &calls}
	c := &CAManager{logger: hclog.NewNullLogger(), serverConf: &Config{Datacenter: "dc1"}, delegate: vCADelegate{}}

	kind := verifrt.Choice("kind", 5)
	var path, name, dc, want string
	switch kind {
	case 0:
		ns := "default"
		if verifrt.Bool("ns.other") {
			ns = vSeg("ns")
		}
		dc, name = vDC("dc"), vSeg("svc")
		path, want = "/ns/"+ns+"/dc/"+dc+"/svc/"+name, "ServiceWrite"
	case 1:
		dc, name = vDC("dc"), vSeg("node")
		path, want = "/agent/client/dc/"+dc+"/id/"+name, "NodeWrite"
	case 2:
		dc = vDC("dc")
		path, want = "/gateway/mesh/dc/"+dc, "MeshWrite"
	case 3:
		dc = vDC("dc")
		path, want = "/agent/server/dc/"+dc, "ACLWrite"
	case 4:
		path = "/" + vSeg("junk") + "/" + vSeg("junk2")
	}
	u := &url.URL{Scheme: "spiffe", Host: "11111111-2222-3333-4444-555555555555.consul", Path: path}
	if verifrt.Bool("scheme.other") {
		u.Scheme = "https"
	}
	csr := &x509.CertificateRequest{URIs: []*url.URL{u}}
	nURIs := 1 + verifrt.Choice("extra.uris", 2)
	if nURIs == 2 {
		csr.URIs = append(csr.URIs, &url.URL{Scheme: "spiffe", Host: u.Host, Path: "/ns/default/dc/dc1/svc/other"})
	}
	if verifrt.Bool("email") {
		csr.EmailAddresses = []string{"a@b"}
	}

	_, err := c.AuthorizeAndSignCertificate(csr, authz)
	// the CA is not initialised in this harness: reaching the provider shows as this error
	reachedSigning := err != nil && strings.Contains(err.Error(), "CA is uninitialized")
	verifrt.Assert("C12.never-succeeds-without-provider", err != nil)

	if reachedSigning {
		verifrt.Assert("C12.exactly-one-uri-no-email", len(csr.URIs) == 1 && len(csr.EmailAddresses) == 0)
		verifrt.Assert("C12.spiffe-scheme", u.Scheme == "spiffe")
		verifrt.Assert("C12.supported-identity", kind != 4)
		// what was authorised is what is encoded in the certificate identity
		id, perr := connect.ParseCertURI(u)
		verifrt.Assert("C12.identity-parses", perr == nil)
		if perr == nil {
			verifrt.Assert("C12.identity-encodes-the-request", id.URI().Path == path)
		}
		verifrt.Assert("C12.authorized-by-exactly-one-write-check", len(calls) == 1 && calls[0].method == want)
		if len(calls) == 1 {
			verifrt.Assert("C12.authorized-on-exactly-that-name", calls[0].name == name)
			switch want {
			case "ServiceWrite":
				verifrt.Assert("C12.write-was-granted", verifrt.UFBool("serviceWrite", name))
			case "NodeWrite":
				verifrt.Assert("C12.write-was-granted", verifrt.UFBool("nodeWrite", name))
			case "MeshWrite":
				verifrt.Assert("C12.write-was-granted", verifrt.UFBool("meshWrite", ""))
			case "ACLWrite":
				verifrt.Assert("C12.write-was-granted", verifrt.UFBool("aclWrite", ""))
			}
		}
		if want != "NodeWrite" {
			verifrt.Assert("C12.local-datacenter-only", dc == "dc1")
		}
		verifrt.Reached("reached-signing")
	} else {
		verifrt.Reached("rejected")
	}
}
