//go:build verif

package state

import (
	"bytes"

	"github.com/hashicorp/consul/agent/structs"
	"github.com/hashicorp/consul/internal/verifrt"
)

// C19, applying a replicated token: the secondary stores the token with the hash the primary supplied (the
// diff of the next round compares hashes, so a recomputed hash that differs - e.g. because a linked policy no
// longer exists - would make an equal secondary look different for ever), and leaves its local tokens alone.
func VerifC19_ReplicatedTokenKeepsHash() {
	s := NewStateStore(nil)
	const accessor, secret = "aaaaaaaa-1111-1111-1111-aaaaaaaaaaaa", "bbbbbbbb-2222-2222-2222-bbbbbbbbbbbb"
	const localAcc, localSec = "cccccccc-3333-3333-3333-cccccccccccc", "dddddddd-4444-4444-4444-dddddddddddd"
	if err := s.ACLTokenSet(1, &structs.ACLToken{AccessorID: localAcc, SecretID: localSec, Description: "local", Local: true}); err != nil {
		panic(err)
	}
	// the primary's token: its hash is whatever the primary computed (arbitrary here); it may link a policy the
	// secondary does not have
	hash := []byte{verifrt.U8("hash0"), verifrt.U8("hash1")}
	tok := &structs.ACLToken{AccessorID: accessor, SecretID: secret, Description: "from the primary", Hash: append([]byte(nil), hash...)}
	if verifrt.Bool("dangling-policy-link") {
		tok.Policies = []structs.ACLTokenPolicyLink{{ID: "eeeeeeee-5555-5555-5555-eeeeeeeeeeee"}}
	}
	idx := verifrt.U64("idx")
	verifrt.Assume(idx > 1 && idx < 1<<62)
	err := s.ACLTokenBatchSet(idx, structs.ACLTokens{tok}, ACLTokenSetOptions{FromReplication: true, AllowMissingPolicyAndRoleIDs: true})
	verifrt.Assert("C19.token-apply.no-error", err == nil)
	_, got, _ := s.ACLTokenGetByAccessor(nil, accessor, nil)
	verifrt.Assert("C19.token-apply.stored", got != nil && got.ModifyIndex == idx)
	if got != nil {
		verifrt.Assert("C19.token-apply.keeps-the-primarys-hash", bytes.Equal(got.Hash, hash))
	}
	_, loc, _ := s.ACLTokenGetByAccessor(nil, localAcc, nil)
	verifrt.Assert("C19.token-apply.local-token-untouched", loc != nil && loc.Description == "local" && loc.ModifyIndex == 1)
	verifrt.Reached("end")
}
