//go:build verif

package consul

import (
	"bytes"

	"github.com/hashicorp/consul/agent/structs"
	"github.com/hashicorp/consul/internal/verifrt"
)

// C19: the deletions and upserts computed by one replication round, once
// applied, make the secondary's replicated set equal to the primary's.

func vC19Bounds() (nLocal, nRemote, idLen int) {
	if verifrt.Thorough() {
		return 3, 3, 2
	}
	return 2, 3, 1
}

type vItem struct {
	id   string
	mod  uint64
	hash byte
}

func vID(tag string, maxLen int) string {
	n := verifrt.Choice(tag+".len", maxLen+1)
	return verifrt.StrN(tag, n)
}

func vItems(tag string, n, idLen int) []vItem {
	k := verifrt.Choice(tag+".n", n+1)
	out := make([]vItem, k)
	for i := range out {
		t := tag + string(rune('0'+i))
		out[i] = vItem{vID(t+".id", idLen), verifrt.U64(t + ".mod"), verifrt.U8(t + ".hash")}
		for j := 0; j < i; j++ {
			verifrt.Assume(out[i].id == "" || out[j].id != out[i].id)
		}
	}
	return out
}

func vFind(items []vItem, id string) int {
	for i := range items {
		if items[i].id == id {
			return i
		}
	}
	return -1
}

// vConsistent: what the secondary has already applied. A remote item not newer
// than lastRemoteIndex was replicated in an earlier round, so the secondary
// holds it with the same content.
func vConsistent(local, remote []vItem, last uint64) {
	for _, r := range remote {
		if r.id != "" && r.mod <= last {
			j := vFind(local, r.id)
			verifrt.Assume(j >= 0 && local[j].hash == r.hash)
		}
	}
}

func vContains(ids []string, id string) bool {
	for _, x := range ids {
		if x == id {
			return true
		}
	}
	return false
}

// vCheckRound applies deletes then upserts to the local list and compares.
func vCheckRound(pfx string, local, remote []vItem, deletes, upserts []string) {
	for _, d := range deletes {
		verifrt.Assert(pfx+".delete-is-local-nonempty", d != "" && vFind(local, d) >= 0)
		verifrt.Assert(pfx+".no-id-deleted-and-upserted", !vContains(upserts, d))
	}
	for _, u := range upserts {
		verifrt.Assert(pfx+".upsert-is-remote-nonempty", u != "" && vFind(remote, u) >= 0)
	}
	// result: local items not deleted (content replaced when upserted) + upserted remote items not local
	type res struct {
		id   string
		hash byte
	}
	var out []res
	for _, l := range local {
		if l.id == "" {
			out = append(out, res{"", l.hash}) // local-only / unmigrated: untouched
			continue
		}
		if vContains(deletes, l.id) {
			continue
		}
		h := l.hash
		if vContains(upserts, l.id) {
			h = remote[vFind(remote, l.id)].hash
		}
		out = append(out, res{l.id, h})
	}
	for _, u := range upserts {
		if vFind(local, u) < 0 {
			out = append(out, res{u, remote[vFind(remote, u)].hash})
		}
	}
	equalBefore := true
	for _, r := range remote {
		if r.id == "" {
			continue
		}
		found := false
		for _, o := range out {
			if o.id == r.id && o.hash == r.hash {
				found = true
			}
		}
		verifrt.Assert(pfx+".remote-item-present-after-round", found)
		if j := vFind(local, r.id); j < 0 || local[j].hash != r.hash {
			equalBefore = false
		}
	}
	for _, o := range out {
		if o.id != "" {
			verifrt.Assert(pfx+".no-extra-item-after-round", vFind(remote, o.id) >= 0)
		}
	}
	for _, l := range local {
		if l.id != "" && vFind(remote, l.id) < 0 {
			equalBefore = false
		}
	}
	if equalBefore {
		verifrt.Assert(pfx+".equal-produces-no-writes", len(deletes) == 0 && len(upserts) == 0)
		verifrt.Reached("already-equal")
	}
	verifrt.Reached("end")
}

func vC19Inputs() (local, remote []vItem, last uint64) {
	nl, nr, idLen := vC19Bounds()
	local = vItems("L", nl, idLen)
	remote = vItems("R", nr, idLen)
	last = verifrt.U64("lastRemoteIndex")
	vConsistent(local, remote, last)
	return
}

func VerifC19_Policies() {
	local, remote, last := vC19Inputs()
	tr := &aclPolicyReplicator{}
	for _, l := range local {
		tr.local = append(tr.local, &structs.ACLPolicy{ID: l.id, Hash: []byte{l.hash}, RaftIndex: structs.RaftIndex{ModifyIndex: l.mod}})
	}
	for _, r := range remote {
		tr.remote = append(tr.remote, &structs.ACLPolicyListStub{ID: r.id, Hash: []byte{r.hash}, ModifyIndex: r.mod})
	}
	res := diffACLType(tr, last)
	skipped := 0
	for _, l := range local {
		if l.id == "" {
			skipped++
		}
	}
	verifrt.Assert("C19.policy.local-skipped-count", res.LocalSkipped == skipped)
	vCheckRound("C19.policy", local, remote, res.LocalDeletes, res.LocalUpserts)
}

func VerifC19_Roles() {
	local, remote, last := vC19Inputs()
	tr := &aclRoleReplicator{}
	for _, l := range local {
		tr.local = append(tr.local, &structs.ACLRole{ID: l.id, Hash: []byte{l.hash}, RaftIndex: structs.RaftIndex{ModifyIndex: l.mod}})
	}
	for _, r := range remote {
		tr.remote = append(tr.remote, &structs.ACLRole{ID: r.id, Hash: []byte{r.hash}, RaftIndex: structs.RaftIndex{ModifyIndex: r.mod}})
	}
	res := diffACLType(tr, last)
	vCheckRound("C19.role", local, remote, res.LocalDeletes, res.LocalUpserts)
}

func VerifC19_Tokens() {
	local, remote, last := vC19Inputs()
	tr := &aclTokenReplicator{}
	for _, l := range local {
		tr.local = append(tr.local, &structs.ACLToken{AccessorID: l.id, Hash: []byte{l.hash}, RaftIndex: structs.RaftIndex{ModifyIndex: l.mod}})
	}
	for _, r := range remote {
		tr.remote = append(tr.remote, &structs.ACLTokenListStub{AccessorID: r.id, Hash: []byte{r.hash}, ModifyIndex: r.mod})
	}
	res := diffACLType(tr, last)
	vCheckRound("C19.token", local, remote, res.LocalDeletes, res.LocalUpserts)
}

// ---- config entries: identity is (kind, name) ---------------------------------

type vCE struct {
	kind int // 0 service-defaults, 1 service-resolver
	name string
	mod  uint64
	hash uint64
}

func vCEs(tag string, n int) []vCE {
	k := verifrt.Choice(tag+".n", n+1)
	out := make([]vCE, k)
	for i := range out {
		t := tag + string(rune('0'+i))
		out[i] = vCE{verifrt.Choice(t+".kind", 2), verifrt.StrN(t+".name", 1), verifrt.U64(t + ".mod"), verifrt.U64(t + ".hash")}
		verifrt.Assume(out[i].hash != 0)
		for j := 0; j < i; j++ {
			verifrt.Assume(out[j].kind != out[i].kind || out[j].name != out[i].name)
		}
	}
	return out
}

func (c vCE) entry() structs.ConfigEntry {
	if c.kind == 0 {
		return &structs.ServiceConfigEntry{Kind: structs.ServiceDefaults, Name: c.name, Hash: c.hash, RaftIndex: structs.RaftIndex{ModifyIndex: c.mod}}
	}
	return &structs.ServiceResolverConfigEntry{Kind: structs.ServiceResolver, Name: c.name, Hash: c.hash, RaftIndex: structs.RaftIndex{ModifyIndex: c.mod}}
}

func vCEFind(items []vCE, kind string, name string) int {
	for i := range items {
		k := structs.ServiceDefaults
		if items[i].kind == 1 {
			k = structs.ServiceResolver
		}
		if k == kind && items[i].name == name {
			return i
		}
	}
	return -1
}

func VerifC19_ConfigEntries() {
	nl, nr, _ := vC19Bounds()
	local := vCEs("L", nl)
	remote := vCEs("R", nr)
	last := verifrt.U64("lastRemoteIndex")
	for _, r := range remote {
		if r.mod <= last {
			k := structs.ServiceDefaults
			if r.kind == 1 {
				k = structs.ServiceResolver
			}
			j := vCEFind(local, k, r.name)
			verifrt.Assume(j >= 0 && local[j].hash == r.hash)
		}
	}
	var le, re []structs.ConfigEntry
	for _, l := range local {
		le = append(le, l.entry())
	}
	for _, r := range remote {
		re = append(re, r.entry())
	}
	dels, ups := diffConfigEntries(le, re, last)

	type res struct {
		kind, name string
		hash       uint64
	}
	inList := func(xs []structs.ConfigEntry, kind, name string) bool {
		for _, x := range xs {
			if x.GetKind() == kind && x.GetName() == name {
				return true
			}
		}
		return false
	}
	for _, d := range dels {
		verifrt.Assert("C19.config.delete-is-local", vCEFind(local, d.GetKind(), d.GetName()) >= 0)
		verifrt.Assert("C19.config.no-id-deleted-and-upserted", !inList(ups, d.GetKind(), d.GetName()))
	}
	var out []res
	for _, l := range le {
		if inList(dels, l.GetKind(), l.GetName()) {
			continue
		}
		h := l.GetHash()
		for _, u := range ups {
			if u.GetKind() == l.GetKind() && u.GetName() == l.GetName() {
				h = u.GetHash()
			}
		}
		out = append(out, res{l.GetKind(), l.GetName(), h})
	}
	for _, u := range ups {
		verifrt.Assert("C19.config.upsert-is-remote", vCEFind(remote, u.GetKind(), u.GetName()) >= 0)
		if vCEFind(local, u.GetKind(), u.GetName()) < 0 {
			out = append(out, res{u.GetKind(), u.GetName(), u.GetHash()})
		}
	}
	equalBefore := len(local) == len(remote)
	for _, r := range re {
		found := false
		for _, o := range out {
			if o.kind == r.GetKind() && o.name == r.GetName() && o.hash == r.GetHash() {
				found = true
			}
		}
		verifrt.Assert("C19.config.remote-entry-present-after-round", found)
		j := vCEFind(local, r.GetKind(), r.GetName())
		if j < 0 || local[j].hash != r.GetHash() {
			equalBefore = false
		}
	}
	for _, o := range out {
		verifrt.Assert("C19.config.no-extra-entry-after-round", vCEFind(remote, o.kind, o.name) >= 0)
	}
	if equalBefore {
		verifrt.Assert("C19.config.equal-produces-no-writes", len(dels) == 0 && len(ups) == 0)
		verifrt.Reached("already-equal")
	}
	verifrt.Reached("end")
}

var _ = bytes.Equal
