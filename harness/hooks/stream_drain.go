//go:build verif

package stream

// Verification hook (injected by build overlay only; no tracked file of the
// repository is changed): hand exactly one queued batch of events from the
// publish channel to the real publishEvent, as the Run loop would.

// VerifDrainOne publishes one queued batch; false when nothing is queued.
func (e *EventPublisher) VerifDrainOne() bool {
	select {
	case update := <-e.publishCh:
		e.publishEvent(update)
		return true
	default:
		return false
	}
}
