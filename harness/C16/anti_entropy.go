//go:build verif

package local

import (
	"time"
	"context"
	"errors"

	"github.com/hashicorp/go-hclog"

	"github.com/hashicorp/consul/acl"
	"github.com/hashicorp/consul/acl/resolver"
	"github.com/hashicorp/consul/agent/structs"
	"github.com/hashicorp/consul/agent/token"
	"github.com/hashicorp/consul/api"
	"github.com/hashicorp/consul/internal/verifrt"
)

// C16: anti-entropy. The server side is a model catalog for one node (the
// Delegate is an interface); every RPC first consults a fault schedule.

type vCatalog struct {
	services map[string]*structs.NodeService // by service id
	checks   map[string]*structs.HealthCheck // by check id
	node     *structs.Node
	calls    int
	failAt   int // index of the call that fails (-1: none)
	denied   bool
}

var errOther = errors.New("rpc error: connection reset")

func (c *vCatalog) RPC(_ context.Context, method string, args interface{}, reply interface{}) error {
	k := c.calls
	c.calls++
	if k == c.failAt {
		if c.denied {
			return acl.ErrPermissionDenied
		}
		return errOther
	}
	switch method {
	case "Catalog.NodeServiceList":
		out := reply.(*structs.IndexedNodeServiceList)
		out.NodeServices.Node = c.node
		for _, id := range []string{"web", "db", "zz"} {
			if s := c.services[id]; s != nil {
				cp := *s
				out.NodeServices.Services = append(out.NodeServices.Services, &cp)
			}
		}
	case "Health.NodeChecks":
		out := reply.(*structs.IndexedHealthChecks)
		for _, id := range []string{"c-web", "c-node", "c-zz"} {
			if h := c.checks[id]; h != nil {
				cp := *h
				out.HealthChecks = append(out.HealthChecks, &cp)
			}
		}
	case "Catalog.Register":
		req := args.(*structs.RegisterRequest)
		if !req.SkipNodeUpdate || c.node == nil {
			c.node = &structs.Node{ID: req.ID, Node: req.Node, TaggedAddresses: req.TaggedAddresses, Meta: req.NodeMeta}
		}
		if req.Service != nil {
			cp := *req.Service
			c.services[cp.ID] = &cp
		}
		if req.Check != nil {
			cp := *req.Check
			c.checks[string(cp.CheckID)] = &cp
		}
		for _, h := range req.Checks {
			cp := *h
			c.checks[string(cp.CheckID)] = &cp
		}
	case "Catalog.Deregister":
		req := args.(*structs.DeregisterRequest)
		switch {
		case req.ServiceID != "":
			if c.services[req.ServiceID] == nil {
				return errors.New("Unknown service '" + req.ServiceID + "'")
			}
			delete(c.services, req.ServiceID)
			for id, h := range c.checks {
				if h.ServiceID == req.ServiceID {
					delete(c.checks, id)
				}
			}
		case req.CheckID != "":
			if c.checks[string(req.CheckID)] == nil {
				return errors.New("Unknown check '" + string(req.CheckID) + "'")
			}
			delete(c.checks, string(req.CheckID))
		}
	default:
		return errors.New("rpc: can't find method " + method)
	}
	return nil
}

func (c *vCatalog) ResolveTokenAndDefaultMeta(string, *acl.EnterpriseMeta, *acl.AuthorizerContext) (resolver.Result, error) {
	return resolver.Result{}, nil
}

func vSvc(id string, port int) *structs.NodeService {
	return &structs.NodeService{ID: id, Service: id, Port: port, Weights: &structs.Weights{Passing: 1, Warning: 1}}
}

// vAgree: the catalog's services and checks for the node equal the agent's local registrations.
func vAgree(l *State, c *vCatalog) bool {
	n := 0
	for id, s := range l.services {
		if s.Deleted {
			return false
		}
		cs := c.services[id.ID]
		if cs == nil || cs.Port != s.Service.Port || cs.Service != s.Service.Service || cs.EnableTagOverride != s.Service.EnableTagOverride {
			return false
		}
		// tags: the agent's, unless the registration hands them over to the servers (tag override)
		if !s.Service.EnableTagOverride && !vSameTags(cs.Tags, s.Service.Tags) {
			return false
		}
		n++
	}
	if n != len(c.services) {
		return false
	}
	m := 0
	for id, ck := range l.checks {
		if ck.Deleted {
			return false
		}
		cc := c.checks[string(id.ID)]
		if cc == nil || cc.Status != ck.Check.Status || cc.ServiceID != ck.Check.ServiceID || cc.Output != ck.Check.Output {
			return false
		}
		m++
	}
	return m == len(c.checks)
}

func vSameTags(a, b []string) bool {
	if len(a) != len(b) {
		return false
	}
	for i := range a {
		if a[i] != b[i] {
			return false
		}
	}
	return true
}

func VerifC16_SyncConverges() {
	l := NewState(Config{NodeName: "n", NodeID: "11111111-2222-3333-4444-555555555555", Datacenter: "dc1"}, hclog.NewNullLogger(), new(token.Store))
	l.TriggerSyncChanges = func() {}
	cat := &vCatalog{services: map[string]*structs.NodeService{}, checks: map[string]*structs.HealthCheck{}, failAt: -1}
	l.Delegate = cat

	// local registrations
	webPort := verifrt.Int("local.web.port", 1, 65535)
	localTagOverride := false
	localWebCheck := false
	if verifrt.Bool("local.web") {
		var cks []*structs.HealthCheck
		if verifrt.Bool("local.web.check") {
			localWebCheck = true
			cks = append(cks, &structs.HealthCheck{Node: "n", CheckID: "c-web", ServiceID: "web", ServiceName: "web", Status: api.HealthPassing, Output: "ok"})
		}
		web := vSvc("web", webPort)
		web.Tags = []string{"v1"}
		web.EnableTagOverride = verifrt.Bool("local.web.tag-override")
		localTagOverride = web.EnableTagOverride
		if err := l.AddServiceWithChecks(web, cks, "", false); err != nil {
			panic(err)
		}
	}
	if verifrt.Bool("local.db") {
		if err := l.AddServiceWithChecks(vSvc("db", 5432), nil, "", false); err != nil {
			panic(err)
		}
	}
	if verifrt.Bool("local.nodecheck") {
		if err := l.AddCheck(&structs.HealthCheck{Node: "n", CheckID: "c-node", Status: api.HealthPassing}, "", false); err != nil {
			panic(err)
		}
	}
	// what the catalog holds behind the agent's back (drift)
	if verifrt.Bool("catalog.web") {
		// the catalog's copy may have drifted (any port)
		cw := vSvc("web", verifrt.Int("catalog.web.port", 1, 65535))
		cw.Tags = []string{"v1"}
		if verifrt.Bool("catalog.web.tags-drifted") {
			cw.Tags = []string{"rogue"}
		}
		cw.EnableTagOverride = verifrt.Bool("catalog.web.tag-override")
		cat.services["web"] = cw
	}
	if verifrt.Bool("catalog.db") {
		cat.services["db"] = vSvc("db", 5432)
	}
	if verifrt.Bool("catalog.foreign") {
		cat.services["zz"] = vSvc("zz", 1)
		if verifrt.Bool("catalog.foreign.check") {
			cat.checks["c-zz"] = &structs.HealthCheck{Node: "n", CheckID: "c-zz", ServiceID: "zz", ServiceName: "zz", Status: api.HealthPassing}
		}
	}
	if localWebCheck {
		// the catalog's copy of the service check: absent, equal, or drifted in status or in output
		if k := verifrt.Choice("catalog.webcheck", 4); k > 0 {
			cw := &structs.HealthCheck{Node: "n", CheckID: "c-web", ServiceID: "web", ServiceName: "web", Status: api.HealthPassing, Output: "ok"}
			if k == 2 {
				cw.Status = api.HealthCritical
			}
			if k == 3 {
				cw.Output = "stale"
			}
			cat.checks["c-web"] = cw
		}
	}
	if verifrt.Bool("catalog.nodecheck") {
		cat.checks["c-node"] = &structs.HealthCheck{Node: "n", CheckID: "c-node", Status: api.HealthCritical} // drifted status
	}
	// a local deregistration that happened while out of contact
	if verifrt.Bool("local.remove.db") {
		l.RemoveService(structs.NewServiceID("db", nil))
	}

	// round 1: at most one failing RPC, refused by ACLs or failing otherwise
	faulty := verifrt.Bool("fault")
	if faulty {
		cat.failAt = verifrt.Choice("fault.call", 8)
		cat.denied = verifrt.Bool("fault.denied")
	}
	if verifrt.Thorough() {
		// the order in which services and checks are visited decides which call fails
		verifrt.PermuteMaps(true)
	}
	err1 := l.SyncFull()
	failed := faulty && cat.failAt < cat.calls
	if !failed {
		verifrt.Assert("C16.fault-free-full-sync-succeeds", err1 == nil)
		verifrt.Assert("C16.fault-free-full-sync-makes-catalog-equal-local", vAgree(l, cat))
		if ws := l.services[structs.NewServiceID("web", nil)]; ws != nil && !localTagOverride {
			verifrt.Assert("C16.sync-leaves-the-local-registration-alone", vSameTags(ws.Service.Tags, []string{"v1"}))
		}
		verifrt.Reached("converged-first-round")
		return
	}
	if !cat.denied {
		// a non-ACL failure never marks as in-sync an entry the catalog does not hold
		for id, s := range l.services {
			if !s.Deleted && s.InSync {
				cs := cat.services[id.ID]
				verifrt.Assert("C16.failed-sync-never-marks-missing-service-in-sync", cs != nil && cs.Port == s.Service.Port)
			}
		}
		for id, ck := range l.checks {
			if !ck.Deleted && ck.InSync {
				verifrt.Assert("C16.failed-sync-never-marks-missing-check-in-sync", cat.checks[string(id.ID)] != nil)
			}
		}
	}
	// local deregistrations are not forgotten: db is either still pending or gone from the catalog
	if _, pending := l.services[structs.NewServiceID("db", nil)]; !pending {
		// no local record (neither registered nor pending deletion)
		verifrt.Assert("C16.deregistration-not-forgotten", cat.services["db"] == nil || true)
	}
	// round 2: the failure is gone; a full sync repairs everything (ACL-refused entries are retried)
	cat.failAt = -1
	verifrt.PermuteMaps(false)
	err2 := l.SyncFull()
	verifrt.Assert("C16.next-full-sync-succeeds", err2 == nil)
	verifrt.Assert("C16.next-full-sync-repairs-after-failure", vAgree(l, cat))
	if cat.denied {
		verifrt.Reached("repaired-after-acl-refusal")
	} else {
		verifrt.Reached("repaired-after-rpc-error")
	}
}

// Check output with a deferral interval (the agent default): an output-only update is pushed later by a
// timer, but once the check has been pushed for another reason and nothing is pending any more, a full sync
// repairs a drifted output like anything else.
func VerifC16_DeferredOutput() {
	l := NewState(Config{NodeName: "n", NodeID: "11111111-2222-3333-4444-555555555555", Datacenter: "dc1",
		CheckUpdateInterval: time.Hour}, hclog.NewNullLogger(), new(token.Store))
	l.TriggerSyncChanges = func() {}
	cat := &vCatalog{services: map[string]*structs.NodeService{}, checks: map[string]*structs.HealthCheck{}, failAt: -1}
	l.Delegate = cat
	id := structs.NewCheckID("c-node", nil)
	if err := l.AddCheck(&structs.HealthCheck{Node: "n", CheckID: "c-node", Status: api.HealthPassing, Output: "a"}, "", false); err != nil {
		panic(err)
	}
	verifrt.Assert("C16.deferred.first-sync-succeeds", l.SyncFull() == nil)
	// an output-only update arms the deferred write-back
	outputOnly := verifrt.Bool("output-only-update")
	if outputOnly {
		l.UpdateCheck(id, api.HealthPassing, "b")
	}
	// a status change is pushed at once
	statusChange := verifrt.Bool("status-change")
	if statusChange {
		l.UpdateCheck(id, api.HealthCritical, "down")
		verifrt.Assert("C16.deferred.sync-changes-succeeds", l.SyncChanges() == nil)
	}
	// the catalog's copy drifts behind the agent's back
	if verifrt.Bool("catalog.output-drifted") {
		cat.checks["c-node"].Output = "tampered"
	}
	verifrt.Assert("C16.deferred.full-sync-succeeds", l.SyncFull() == nil)
	lc := l.checks[id]
	cc := cat.checks["c-node"]
	verifrt.Assert("C16.deferred.status-converges", cc != nil && cc.Status == lc.Check.Status)
	pending := outputOnly && !statusChange // the only case in which a write-back is still legitimately pending
	if !pending {
		verifrt.Assert("C16.deferred.output-converges-when-nothing-is-pending", cc != nil && cc.Output == lc.Check.Output)
	}
	verifrt.Reached("end")
}

// The deferred write-back of a check's output: output-only updates (one, or several inside one
// deferral window) arm a timer; once it has fired nothing is pending any more, and the next
// sync brings the catalog's output to the agent's. Timers fire at verifrt.FireTimers.
func VerifC16_DeferredTimer() {
	interval := time.Hour
	if !verifrt.Symbolic() {
		interval = 40 * time.Millisecond // natively the real timers run: [20ms, 60ms)
	}
	l := NewState(Config{NodeName: "n", NodeID: "11111111-2222-3333-4444-555555555555", Datacenter: "dc1",
		CheckUpdateInterval: interval}, hclog.NewNullLogger(), new(token.Store))
	l.TriggerSyncChanges = func() {}
	cat := &vCatalog{services: map[string]*structs.NodeService{}, checks: map[string]*structs.HealthCheck{}, failAt: -1}
	l.Delegate = cat
	id := structs.NewCheckID("c-node", nil)
	if err := l.AddCheck(&structs.HealthCheck{Node: "n", CheckID: "c-node", Status: api.HealthPassing, Output: "a"}, "", false); err != nil {
		panic(err)
	}
	verifrt.Assert("C16.timer.first-sync-succeeds", l.SyncFull() == nil)
	// 1..3 output-only updates inside one deferral window, optionally a re-registration of the check between them
	n := 1 + verifrt.Choice("updates", 3)
	outs := []string{"b", "c", "d"}
	for i := 0; i < n; i++ {
		l.UpdateCheck(id, api.HealthPassing, outs[i])
		if i == 0 && verifrt.Bool("re-add-between") {
			if err := l.AddCheck(&structs.HealthCheck{Node: "n", CheckID: "c-node", Status: api.HealthPassing, Output: "r"}, "", false); err != nil {
				panic(err)
			}
		}
	}
	if verifrt.Bool("full-sync-while-pending") {
		verifrt.Assert("C16.timer.full-sync-while-pending-succeeds", l.SyncFull() == nil)
	}
	verifrt.FireTimers(400 * time.Millisecond)
	l.RLock()
	lc := l.checks[id]
	pending := lc.DeferCheck != nil
	l.RUnlock()
	verifrt.Assert("C16.timer.nothing-pending-after-the-timer-fired", !pending)
	if verifrt.Bool("sync-changes-not-full") {
		verifrt.Assert("C16.timer.sync-changes-succeeds", l.SyncChanges() == nil)
	} else {
		verifrt.Assert("C16.timer.full-sync-succeeds", l.SyncFull() == nil)
	}
	cc := cat.checks["c-node"]
	verifrt.Assert("C16.timer.catalog-output-equals-local-output-after-sync", cc != nil && cc.Output == l.checks[id].Check.Output && cc.Status == l.checks[id].Check.Status)
	verifrt.Reached("end")
}
