//go:build verif

package state

import (
	"github.com/hashicorp/consul/agent/structs"
	"github.com/hashicorp/consul/api"
	"github.com/hashicorp/consul/internal/verifrt"
	"github.com/hashicorp/consul/types"
)

// C04: whenever a session ends (explicit destroy, deregistration of its node,
// deletion or critical status of a bound check, deletion inside a transaction)
// every key it held is released or deleted per its behaviour, its check links
// are removed, and no key is ever held by a session that does not exist.
// The pre-state is built through the store's own API (register node/check,
// create sessions, acquire locks), with symbolic key names, values and indexes.

func VerifC04_SessionEnd_Setup() any {
	s := NewStateStore(nil)
	must := func(err error) {
		if err != nil {
			panic(err)
		}
	}
	must(s.EnsureNode(1, &structs.Node{Node: "n1", Address: "10.0.0.1"}))
	must(s.EnsureNode(2, &structs.Node{Node: "n2", Address: "10.0.0.2"}))
	must(s.EnsureCheck(3, &structs.HealthCheck{Node: "n1", CheckID: "c1", Status: api.HealthPassing}))
	must(s.EnsureCheck(4, &structs.HealthCheck{Node: "n1", CheckID: "c2", Status: api.HealthPassing}))
	return s
}

type vSessSpec struct {
	id      string
	node    string
	delete  bool // behaviour delete (else release)
	onCheck bool // bound to check c1
}

func vHolds(holder []int, k, who int) bool { return holder[k] == who }

func VerifC04_SessionEnd(st any) {
	s := st.(*Store)
	next := uint64(10)
	tick := func() uint64 { next++; return next }

	specs := []vSessSpec{
		{id: vSessA, node: "n1", delete: verifrt.Bool("A.delete"), onCheck: verifrt.Bool("A.check")},
		{id: vSessB, node: "n1", delete: verifrt.Bool("B.delete"), onCheck: verifrt.Bool("B.check")},
	}
	if verifrt.Bool("B.othernode") {
		specs[1].node, specs[1].onCheck = "n2", false
	}
	for _, sp := range specs {
		sess := &structs.Session{ID: sp.id, Node: sp.node, Behavior: structs.SessionKeysRelease, NodeChecks: []string{}}
		if sp.delete {
			sess.Behavior = structs.SessionKeysDelete
		}
		if sp.onCheck {
			sess.NodeChecks = []string{"c1"}
		}
		if err := s.SessionCreate(tick(), sess); err != nil {
			panic(err)
		}
	}
	// two keys with symbolic names, each held by A, by B or by nobody
	keys := []string{vKey("k0", 2), vKey("k1", 2)}
	verifrt.Assume(keys[0] != keys[1])
	holder := make([]int, 2) // 0 none, 1 A, 2 B
	for k := range keys {
		holder[k] = verifrt.Choice("holder"+string(rune('0'+k)), 3)
		e := &structs.DirEntry{Key: keys[k], Value: vVal("val" + string(rune('0'+k))), Flags: verifrt.U64("flags" + string(rune('0'+k)))}
		if holder[k] == 0 {
			if err := s.KVSSet(tick(), e); err != nil {
				panic(err)
			}
		} else {
			e.Session = specs[holder[k]-1].id
			ok, err := s.KVSLock(tick(), e)
			if !ok || err != nil {
				panic("lock failed in pre-state")
			}
		}
	}
	// optionally a prepared query bound to session A
	const queryID = "cccccccc-cccc-cccc-cccc-cccccccccccc"
	hasQuery := verifrt.Bool("A.query")
	if hasQuery {
		if err := s.PreparedQuerySet(tick(), &structs.PreparedQuery{ID: queryID, Name: "q", Session: vSessA,
			Service: structs.ServiceQuery{Service: "web"}}); err != nil {
			panic(err)
		}
	}
	idx := verifrt.U64("idx")
	verifrt.Assume(idx > next)

	// the ending event
	ended := []bool{false, false}
	ev := verifrt.Choice("event", 5)
	switch ev {
	case 0:
		verifrt.Assert("C04.destroy.no-error", s.SessionDestroy(idx, vSessA, nil) == nil)
		ended[0] = true
	case 1:
		verifrt.Assert("C04.deregister-node.no-error", s.DeleteNode(idx, "n1", nil, "") == nil)
		ended[0] = true
		ended[1] = specs[1].node == "n1"
	case 2:
		verifrt.Assert("C04.delete-check.no-error", s.DeleteCheck(idx, "n1", types.CheckID("c1"), nil, "") == nil)
		ended[0], ended[1] = specs[0].onCheck, specs[1].onCheck
	case 3:
		verifrt.Assert("C04.check-critical.no-error", s.EnsureCheck(idx, &structs.HealthCheck{Node: "n1", CheckID: "c1", Status: api.HealthCritical}) == nil)
		ended[0], ended[1] = specs[0].onCheck, specs[1].onCheck
	case 4:
		_, errs := s.TxnRW(idx, structs.TxnOps{&structs.TxnOp{Session: &structs.TxnSessionOp{Verb: api.SessionDelete, Session: structs.Session{ID: vSessA}}}})
		verifrt.Assert("C04.txn-session-delete.no-error", len(errs) == 0)
		ended[0] = true
	}
	evName := []string{"destroy", "deregister-node", "delete-check", "check-critical", "txn-session-delete"}[ev]

	for i, sp := range specs {
		_, got, err := s.SessionGet(nil, sp.id, nil)
		if ended[i] {
			verifrt.Assert("C04."+evName+".session-gone", err == nil && got == nil)
		} else {
			verifrt.Assert("C04."+evName+".other-session-kept", err == nil && got != nil)
		}
	}
	for k, key := range keys {
		_, e, err := s.KVSGet(nil, key, nil)
		verifrt.Assert("C04."+evName+".kv-readable", err == nil)
		h := holder[k]
		switch {
		case h == 0:
			verifrt.Assert("C04."+evName+".unlocked-key-untouched", e != nil && e.Session == "")
		case !ended[h-1]:
			verifrt.Assert("C04."+evName+".key-of-live-session-still-held", e != nil && e.Session == specs[h-1].id)
		case specs[h-1].delete:
			verifrt.Assert("C04."+evName+".held-key-deleted", e == nil)
		default:
			verifrt.Assert("C04."+evName+".held-key-released", e != nil && e.Session == "" && e.LockIndex == 1)
		}
	}
	if hasQuery {
		_, q, err := s.PreparedQueryGet(nil, queryID)
		if ended[0] {
			verifrt.Assert("C04."+evName+".session-bound-query-removed", err == nil && q == nil)
		} else {
			verifrt.Assert("C04."+evName+".query-of-live-session-kept", err == nil && q != nil)
		}
	}
	// no dangling holder, no dangling check link
	for _, r := range vDump(s, tableKVs) {
		d := r.(*structs.DirEntry)
		if d.Session != "" {
			_, got, _ := s.SessionGet(nil, d.Session, nil)
			verifrt.Assert("C04."+evName+".no-key-held-by-missing-session", got != nil)
		}
	}
	for _, r := range vDump(s, tableSessionChecks) {
		m := r.(*sessionCheck)
		_, got, _ := s.SessionGet(nil, m.Session, nil)
		verifrt.Assert("C04."+evName+".no-check-link-of-missing-session", got != nil)
	}
	verifrt.Reached(evName)
}

// Acquisition and release rules from an arbitrary KV pre-state are covered by
// VerifC03_Lock (C03.lock.*, C03.unlock.*): acquired iff the session exists and
// the key is free or held by the caller; released only by the holder.
