//go:build verif

package state

import (
	memdb "github.com/hashicorp/go-memdb"

	"github.com/hashicorp/consul/agent/structs"
	"github.com/hashicorp/consul/api"
	"github.com/hashicorp/consul/internal/verifrt"
)

// C05: a transaction applies all of its operations at one index, or nothing.

var vKVVerbs = []api.KVOp{api.KVSet, api.KVDelete, api.KVDeleteCAS, api.KVDeleteTree, api.KVCAS, api.KVLock, api.KVUnlock,
	api.KVGet, api.KVGetOrEmpty, api.KVGetTree, api.KVCheckSession, api.KVCheckIndex, api.KVCheckNotExists}

type vTxnOp struct {
	verb    api.KVOp
	key     string
	val     []byte
	flags   uint64
	cidx    uint64
	session string
}

func vTxnKVOp(tag string, keyLen int) vTxnOp {
	op := vTxnOp{verb: vKVVerbs[verifrt.Choice(tag+".verb", len(vKVVerbs))], key: vKey(tag+".key", keyLen)}
	switch op.verb {
	case api.KVSet, api.KVCAS, api.KVLock, api.KVUnlock:
		op.val, op.flags = vVal(tag+".val"), verifrt.U64(tag+".flags")
	}
	switch op.verb {
	case api.KVCAS, api.KVDeleteCAS, api.KVCheckIndex:
		op.cidx = verifrt.U64(tag + ".cidx")
	}
	switch op.verb {
	case api.KVLock, api.KVUnlock, api.KVCheckSession:
		op.session = vSessionChoice(tag+".session", 4)
	}
	return op
}

// applyModel applies one op to the model; returns (failed, number of results).
func (o vTxnOp) applyModel(m *vKVModel, idx uint64) (bool, int) {
	i := m.find(o.key)
	switch o.verb {
	case api.KVSet:
		m.set(idx, o.key, o.val, o.flags, 0)
		return false, 1
	case api.KVDelete:
		m.del(idx, o.key)
		return false, 0
	case api.KVDeleteCAS:
		return !m.delCAS(idx, o.cidx, o.key), 0
	case api.KVDeleteTree:
		m.delTree(idx, o.key)
		return false, 0
	case api.KVCAS:
		return !m.cas(idx, o.cidx, o.key, o.val, o.flags, 0), 1
	case api.KVLock:
		ok, isErr := m.lock(idx, o.key, o.session, o.val, o.flags)
		return !ok || isErr, 1
	case api.KVUnlock:
		ok, isErr := m.unlock(idx, o.key, o.session, o.val, o.flags)
		return !ok || isErr, 1
	case api.KVGet:
		return i < 0, 1
	case api.KVGetOrEmpty:
		return false, 1
	case api.KVGetTree:
		n := 0
		for _, e := range m.kv {
			if verifrt.HasPrefix(e.key, o.key) {
				n++
			}
		}
		return false, n
	case api.KVCheckSession:
		return i < 0 || m.kv[i].session != o.session, 1
	case api.KVCheckIndex:
		return i < 0 || m.kv[i].modify != o.cidx, 1
	case api.KVCheckNotExists:
		return i >= 0, 0
	}
	panic("verb")
}

func (o vTxnOp) op() *structs.TxnOp {
	return &structs.TxnOp{KV: &structs.TxnKVOp{Verb: o.verb, DirEnt: structs.DirEntry{Key: o.key, Value: o.val, Flags: o.flags,
		Session: o.session, RaftIndex: structs.RaftIndex{ModifyIndex: o.cidx}}}}
}

func vCloneModel(m *vKVModel) *vKVModel {
	c := &vKVModel{kvsIdx: m.kvsIdx, tombIdx: m.tombIdx, sessions: m.sessions}
	c.kv = append(c.kv, m.kv...)
	c.tombs = append(c.tombs, m.tombs...)
	return c
}

func vFired(ws memdb.WatchSet) bool {
	for ch := range ws {
		select {
		case <-ch:
			return true
		default:
		}
	}
	return false
}

func VerifC05_KVTxn_Setup() any { return vNewStore() }

func VerifC05_KVTxn(st any) {
	s := st.(*Store)
	maxKV, keyLen, nops := 1, 1, 2
	if verifrt.Thorough() {
		maxKV, keyLen = 2, 1 // (2 keys of 2 bytes: more than 1.4 million paths, did not finish in 90 minutes)
	}
	m, idx := vKVPreState(s, maxKV, keyLen, false, 2)
	pre := vCloneModel(m)
	var ops structs.TxnOps
	var mops []vTxnOp
	for i := 0; i < nops; i++ {
		o := vTxnKVOp("op"+string(rune('0'+i)), keyLen)
		mops = append(mops, o)
		ops = append(ops, o.op())
	}
	// a blocked reader of the first op's key
	ws := memdb.NewWatchSet()
	s.KVSGet(ws, mops[0].key, nil)

	results, errs := s.TxnRW(idx, ops)

	var failed []int
	want := 0
	for i, o := range mops {
		f, n := o.applyModel(m, idx)
		if f {
			failed = append(failed, i)
		} else {
			want += n
		}
	}
	if len(failed) > 0 {
		verifrt.Assert("C05.kv.failing-op-fails-the-transaction", len(errs) == len(failed) && results == nil)
		for k := range failed {
			if k < len(errs) {
				verifrt.Assert("C05.kv.error-names-the-failing-op", errs[k].OpIndex == failed[k])
			}
		}
		verifrt.Assert("C05.kv.failed-transaction-changes-no-data", vKVAgree(s, pre) && vTombsAgree(s, pre))
		verifrt.Assert("C05.kv.failed-transaction-changes-no-index", vIndex(s, tableKVs) == pre.kvsIdx && vIndex(s, tableTombstones) == pre.tombIdx)
		verifrt.Assert("C05.kv.failed-transaction-wakes-no-watcher", !vFired(ws))
		verifrt.Reached("rolled-back")
	} else {
		verifrt.Assert("C05.kv.all-ops-succeed", len(errs) == 0)
		verifrt.Assert("C05.kv.result-count", len(results) == want)
		verifrt.Assert("C05.kv.committed-state-is-sequential-application", vKVAgree(s, m) && vTombsAgree(s, m))
		verifrt.Assert("C05.kv.one-index", vIndex(s, tableKVs) == m.kvsIdx && vIndex(s, tableTombstones) == m.tombIdx)
		verifrt.Reached("committed")
	}
}

// Catalog verbs: a compare-and-set later in the transaction sees what an earlier
// operation of the same transaction wrote; when it fails everything rolls back.
func VerifC05_CatalogTxn_Setup() any {
	s := NewStateStore(nil)
	if err := s.EnsureNode(1, &structs.Node{Node: "n1", Address: "10.0.0.1"}); err != nil {
		panic(err)
	}
	if err := s.EnsureCheck(2, &structs.HealthCheck{Node: "n1", CheckID: "c1", Status: api.HealthPassing}); err != nil {
		panic(err)
	}
	return s
}

func VerifC05_CatalogTxn(st any) {
	s := st.(*Store)
	idx := verifrt.U64("idx")
	verifrt.Assume(idx > 2)
	cidx := verifrt.U64("cidx")
	firstDeletes := verifrt.Bool("first.deletes")
	onNode := verifrt.Bool("node-verbs")
	kvKey := vKey("kv.key", 1)
	var ops structs.TxnOps
	ops = append(ops, &structs.TxnOp{KV: &structs.TxnKVOp{Verb: api.KVSet, DirEnt: structs.DirEntry{Key: kvKey, Value: []byte{1}}}})
	if onNode {
		// [NodeSet n1 (new address), NodeCAS n1 @cidx]
		ops = append(ops, &structs.TxnOp{Node: &structs.TxnNodeOp{Verb: api.NodeSet, Node: structs.Node{Node: "n1", Address: "10.0.0.9"}}})
		ops = append(ops, &structs.TxnOp{Node: &structs.TxnNodeOp{Verb: api.NodeCAS, Node: structs.Node{Node: "n1", Address: "10.0.0.7", RaftIndex: structs.RaftIndex{ModifyIndex: cidx}}}})
	} else {
		first := &structs.TxnOp{Check: &structs.TxnCheckOp{Verb: api.CheckSet, Check: structs.HealthCheck{Node: "n1", CheckID: "c1", Status: api.HealthCritical}}}
		if firstDeletes {
			first.Check.Verb = api.CheckDelete
		}
		ops = append(ops, first)
		ops = append(ops, &structs.TxnOp{Check: &structs.TxnCheckOp{Verb: api.CheckCAS, Check: structs.HealthCheck{Node: "n1", CheckID: "c1", Status: api.HealthWarning,
			RaftIndex: structs.RaftIndex{ModifyIndex: cidx}}}})
	}
	_, errs := s.TxnRW(idx, ops)

	// what the CAS must be compared with: the state left by the earlier op of this transaction
	var matched bool
	switch {
	case onNode:
		matched = cidx == idx
	case firstDeletes:
		matched = cidx == 0
	default:
		matched = cidx == idx
	}
	_, kv, _ := s.KVSGet(nil, kvKey, nil)
	_, chk, _ := s.NodeCheck("n1", "c1", nil, "")
	_, node, _ := s.GetNode("n1", nil, "")
	if matched {
		verifrt.Assert("C05.catalog.cas-sees-earlier-op", len(errs) == 0)
		verifrt.Assert("C05.catalog.all-applied", kv != nil && kv.ModifyIndex == idx)
		verifrt.Reached("committed")
	} else {
		verifrt.Assert("C05.catalog.stale-cas-fails-the-transaction", len(errs) == 1 && errs[0].OpIndex == 2)
		verifrt.Assert("C05.catalog.rollback-kv", kv == nil && vIndex(s, tableKVs) == 0)
		verifrt.Assert("C05.catalog.rollback-check", chk != nil && chk.Status == api.HealthPassing && chk.ModifyIndex == 2)
		verifrt.Assert("C05.catalog.rollback-node", node != nil && node.Address == "10.0.0.1" && node.ModifyIndex == 1)
		verifrt.Reached("rolled-back")
	}
}

// Every conditional catalog verb compares with what earlier operations of the same transaction left:
// [set or delete X, cas / delete-cas X @cidx] for X a node, a service or a check.
func VerifC05_CatalogTxnSeesEarlierOps() {
	s := NewStateStore(nil)
	must := func(err error) {
		if err != nil {
			panic(err)
		}
	}
	must(s.EnsureNode(1, &structs.Node{Node: "n1", Address: "10.0.0.1"}))
	must(s.EnsureService(2, "n1", &structs.NodeService{ID: "s1", Service: "web", Port: 80}))
	must(s.EnsureCheck(3, &structs.HealthCheck{Node: "n1", CheckID: "c1", ServiceID: "s1", Status: api.HealthPassing}))
	idx := verifrt.U64("idx")
	verifrt.Assume(idx > 3 && idx < 1<<62)
	cidx := verifrt.U64("cidx")
	ri := structs.RaftIndex{ModifyIndex: cidx}
	firstDeletes := verifrt.Bool("first.deletes")
	secondDeletes := verifrt.Bool("second.deletes")
	var first, second *structs.TxnOp
	entity := verifrt.Choice("entity", 3)
	switch entity {
	case 0:
		first = &structs.TxnOp{Node: &structs.TxnNodeOp{Verb: api.NodeSet, Node: structs.Node{Node: "n1", Address: "10.0.0.9"}}}
		if firstDeletes {
			first.Node.Verb = api.NodeDelete
		}
		second = &structs.TxnOp{Node: &structs.TxnNodeOp{Verb: api.NodeCAS, Node: structs.Node{Node: "n1", Address: "10.0.0.7", RaftIndex: ri}}}
		if secondDeletes {
			second.Node.Verb = api.NodeDeleteCAS
		}
	case 1:
		first = &structs.TxnOp{Service: &structs.TxnServiceOp{Verb: api.ServiceSet, Node: "n1", Service: structs.NodeService{ID: "s1", Service: "web", Port: 81}}}
		if firstDeletes {
			first.Service.Verb = api.ServiceDelete
		}
		second = &structs.TxnOp{Service: &structs.TxnServiceOp{Verb: api.ServiceCAS, Node: "n1", Service: structs.NodeService{ID: "s1", Service: "web", Port: 82, RaftIndex: ri}}}
		if secondDeletes {
			second.Service.Verb = api.ServiceDeleteCAS
		}
	default:
		first = &structs.TxnOp{Check: &structs.TxnCheckOp{Verb: api.CheckSet, Check: structs.HealthCheck{Node: "n1", CheckID: "c1", ServiceID: "s1", Status: api.HealthCritical}}}
		if firstDeletes {
			first.Check.Verb = api.CheckDelete
		}
		second = &structs.TxnOp{Check: &structs.TxnCheckOp{Verb: api.CheckCAS, Check: structs.HealthCheck{Node: "n1", CheckID: "c1", ServiceID: "s1", Status: api.HealthWarning, RaftIndex: ri}}}
		if secondDeletes {
			second.Check.Verb = api.CheckDeleteCAS
		}
	}
	_, errs := s.TxnRW(idx, structs.TxnOps{first, second})
	// after the first op the entity is absent, or present with modify index idx
	var matched bool
	switch {
	case firstDeletes && secondDeletes:
		matched = false // nothing to delete
	case firstDeletes:
		matched = cidx == 0 // create-if-absent
	default:
		matched = cidx == idx
	}
	name := []string{"node", "service", "check"}[entity]
	if matched {
		verifrt.Assert("C05.catalog."+name+".cas-sees-earlier-op", len(errs) == 0)
		verifrt.Reached("committed")
	} else {
		verifrt.Assert("C05.catalog."+name+".stale-cas-fails-the-transaction", len(errs) == 1 && errs[0].OpIndex == 1)
		// and nothing of the first operation is left
		_, node, _ := s.GetNode("n1", nil, "")
		_, svc, _ := s.NodeService(nil, "n1", "s1", nil, "")
		_, chk, _ := s.NodeCheck("n1", "c1", nil, "")
		verifrt.Assert("C05.catalog."+name+".rolled-back", node != nil && node.Address == "10.0.0.1" && svc != nil && svc.Port == 80 &&
			chk != nil && chk.Status == api.HealthPassing)
		verifrt.Reached("rolled-back")
	}
}
