//go:build verif

package state

import (
	"github.com/hashicorp/consul/agent/structs"
	"github.com/hashicorp/consul/api"
	"github.com/hashicorp/consul/internal/verifrt"
)

// C05 ("applies all of its operations at one index and returns their results"): a transaction
// mixing KV, node, service, check and session operations, none of which fails, returns exactly
// the results of its operations, in order: one per reading or writing KV/node/service/check
// verb, none for deletes and session deletes - whatever the kinds of its neighbours.
func VerifC05_MixedTxnResults() {
	s, _ := vC05PreState()
	idx := verifrt.U64("idx")
	verifrt.Assume(idx > 6 && idx < 1<<62)
	n := 3
	if verifrt.Thorough() {
		n = 4
	}
	var ops structs.TxnOps
	var want []string
	names := []string{"kv-get", "kv-get-tree", "node-get", "service-get", "check-get", "session-delete", "kv-set", "kv-delete-absent", "check-set"}
	desc := ""
	sessionDeleted := false
	for i := 0; i < n; i++ {
		k := verifrt.Choice("op"+string(rune('0'+i)), len(names))
		desc += names[k] + ","
		switch k {
		case 0:
			ops = append(ops, &structs.TxnOp{KV: &structs.TxnKVOp{Verb: api.KVGet, DirEnt: structs.DirEntry{Key: "z"}}})
			want = append(want, "kv:z")
		case 1:
			ops = append(ops, &structs.TxnOp{KV: &structs.TxnKVOp{Verb: api.KVGetTree, DirEnt: structs.DirEntry{Key: ""}}})
			want = append(want, "kv:k", "kv:z")
		case 2:
			ops = append(ops, &structs.TxnOp{Node: &structs.TxnNodeOp{Verb: api.NodeGet, Node: structs.Node{Node: "n1"}}})
			want = append(want, "node:n1")
		case 3:
			ops = append(ops, &structs.TxnOp{Service: &structs.TxnServiceOp{Verb: api.ServiceGet, Node: "n1", Service: structs.NodeService{ID: "s1"}}})
			want = append(want, "service:s1")
		case 4:
			ops = append(ops, &structs.TxnOp{Check: &structs.TxnCheckOp{Verb: api.CheckGet, Check: structs.HealthCheck{Node: "n1", CheckID: "c1"}}})
			want = append(want, "check:c1")
		case 5:
			// deleting a session that is already gone fails the transaction: once per transaction here
			verifrt.Assume(!sessionDeleted)
			sessionDeleted = true
			// the session holds key k: the delete releases it (k stays, unlocked)
			ops = append(ops, &structs.TxnOp{Session: &structs.TxnSessionOp{Verb: api.SessionDelete, Session: structs.Session{ID: vSessA}}})
		case 6:
			ops = append(ops, &structs.TxnOp{KV: &structs.TxnKVOp{Verb: api.KVSet, DirEnt: structs.DirEntry{Key: "z", Value: []byte{7}}}})
			want = append(want, "kv:z")
		case 7:
			ops = append(ops, &structs.TxnOp{KV: &structs.TxnKVOp{Verb: api.KVDelete, DirEnt: structs.DirEntry{Key: "absent"}}})
		case 8:
			ops = append(ops, &structs.TxnOp{Check: &structs.TxnCheckOp{Verb: api.CheckSet, Check: structs.HealthCheck{Node: "n1", CheckID: "c1", ServiceID: "s1", Status: api.HealthWarning}}})
			want = append(want, "check:c1")
		}
	}
	results, errs := s.TxnRW(idx, ops)
	verifrt.Assert("C05.mixed.no-operation-fails", len(errs) == 0)
	var got []string
	for _, r := range results {
		switch {
		case r.KV != nil:
			got = append(got, "kv:"+r.KV.Key)
		case r.Node != nil:
			got = append(got, "node:"+r.Node.Node)
		case r.Service != nil:
			got = append(got, "service:"+r.Service.ID)
		case r.Check != nil:
			got = append(got, "check:"+string(r.Check.CheckID))
		default:
			got = append(got, "?")
		}
	}
	ok := len(got) == len(want)
	if ok {
		for i := range got {
			if got[i] != want[i] {
				ok = false
			}
		}
	}
	verifrt.Note("ops", desc)
	verifrt.Assert("C05.mixed.results-are-exactly-those-of-the-operations-in-order", ok)
	verifrt.Reached("end")
}
