//go:build verif

package state

import (
	"reflect"

	memdb "github.com/hashicorp/go-memdb"
	"github.com/mitchellh/copystructure"

	"github.com/hashicorp/consul/agent/consul/stream"
	"github.com/hashicorp/consul/agent/netutil"
	"github.com/hashicorp/consul/agent/structs"
	"github.com/hashicorp/consul/api"
	"github.com/hashicorp/consul/internal/verifrt"
)

// C05: a transaction in which any operation fails changes nothing at all - no
// row of any table (compared by deep content, so that objects mutated in place
// are seen), no index, no woken watcher, no stream event - whatever its other
// operations did before or after the failing one.

type vC05Pub struct{ n int }

func (p *vC05Pub) Publish(es []stream.Event)                                     { p.n += len(es) }
func (p *vC05Pub) RegisterHandler(stream.Topic, stream.SnapshotFunc, bool) error { return nil }
func (p *vC05Pub) Subscribe(*stream.SubscribeRequest) (*stream.Subscription, error) {
	return nil, nil
}

// a deep copy of the content of every table
func vDeepState(s *Store) map[string][]any {
	out := map[string][]any{}
	err := s.WalkAllTables(func(table string, item interface{}) bool {
		c, err := copystructure.Copy(item)
		if err != nil {
			panic(err)
		}
		out[table] = append(out[table], c)
		return false
	})
	if err != nil {
		panic(err)
	}
	return out
}

// a catalog with a service, its check, a sidecar with an upstream, a session holding a lock and a plain key
func vC05PreState() (*Store, *vC05Pub) {
	netutil.GetAgentBindAddrFunc = netutil.GetMockGetAgentBindAddrFunc("0.0.0.0")
	pub := &vC05Pub{}
	s := NewStateStoreWithEventPublisher(nil, pub)
	must := func(err error) {
		if err != nil {
			panic(err)
		}
	}
	must(s.SystemMetadataSet(1, &structs.SystemMetadataEntry{Key: structs.SystemMetadataVirtualIPsEnabled, Value: "true"}))
	must(s.EnsureRegistration(2, &structs.RegisterRequest{Node: "n1", Address: "10.0.0.1",
		Service: &structs.NodeService{ID: "s1", Service: "web", Port: 80},
		Checks:  structs.HealthChecks{{Node: "n1", CheckID: "c1", ServiceID: "s1", Status: api.HealthPassing}}}))
	must(s.EnsureRegistration(3, &structs.RegisterRequest{Node: "n1", Address: "10.0.0.1",
		Service: &structs.NodeService{Kind: structs.ServiceKindConnectProxy, ID: "p1", Service: "web-proxy", Port: 81,
			Proxy: structs.ConnectProxyConfig{DestinationServiceName: "web", Upstreams: structs.Upstreams{{DestinationName: "db"}}}}}))
	must(s.SessionCreate(4, &structs.Session{ID: vSessA, Node: "n1", NodeChecks: []string{}}))
	_, err := s.KVSLock(5, &structs.DirEntry{Key: "k", Value: []byte{1}, Session: vSessA})
	must(err)
	must(s.KVSSet(6, &structs.DirEntry{Key: "z", Value: []byte{2}}))
	pub.n = 0

	return s, pub
}

func VerifC05_FailedTxnTouchesNothing() {
	s, pub := vC05PreState()
	must := func(err error) {
		if err != nil {
			panic(err)
		}
	}
	var err error
	before := vDeepState(s)
	ws := memdb.NewWatchSet()
	_, _, err = s.CheckServiceNodes(ws, "web", nil, "")
	must(err)
	_, _, err = s.KVSList(ws, "", nil)
	must(err)
	_, _, err = s.CheckConnectServiceNodes(ws, "web", nil, "")
	must(err)

	idx := verifrt.U64("idx")
	verifrt.Assume(idx > 6 && idx < 1<<62)
	var mut *structs.TxnOp
	kind := verifrt.Choice("mutation", 8)
	switch kind {
	case 0:
		mut = &structs.TxnOp{Service: &structs.TxnServiceOp{Verb: api.ServiceDelete, Node: "n1", Service: structs.NodeService{ID: "p1"}}}
	case 1:
		mut = &structs.TxnOp{Service: &structs.TxnServiceOp{Verb: api.ServiceDelete, Node: "n1", Service: structs.NodeService{ID: "s1"}}}
	case 2:
		mut = &structs.TxnOp{Node: &structs.TxnNodeOp{Verb: api.NodeDelete, Node: structs.Node{Node: "n1"}}}
	case 3:
		mut = &structs.TxnOp{Check: &structs.TxnCheckOp{Verb: api.CheckSet, Check: structs.HealthCheck{Node: "n1", CheckID: "c1", ServiceID: "s1", Status: api.HealthCritical}}}
	case 4:
		mut = &structs.TxnOp{Service: &structs.TxnServiceOp{Verb: api.ServiceSet, Node: "n1", Service: structs.NodeService{ID: "s1", Service: "api", Port: 80}}}
	case 5:
		mut = &structs.TxnOp{Node: &structs.TxnNodeOp{Verb: api.NodeSet, Node: structs.Node{Node: "n1", Address: "10.0.0.9"}}}
	case 6:
		mut = &structs.TxnOp{Service: &structs.TxnServiceOp{Verb: api.ServiceSet, Node: "n1", Service: structs.NodeService{
			Kind: structs.ServiceKindConnectProxy, ID: "p1", Service: "web-proxy", Port: 81,
			Proxy: structs.ConnectProxyConfig{DestinationServiceName: "web", Upstreams: structs.Upstreams{{DestinationName: "cache"}}}}}}
	default:
		mut = &structs.TxnOp{Session: &structs.TxnSessionOp{Verb: api.SessionDelete, Session: structs.Session{ID: vSessA}}}
	}
	// the failing operation: a check-index on a key no other operation touches, with an index that does not match
	cidx := verifrt.U64("cidx")
	verifrt.Assume(cidx != 6)
	fail := &structs.TxnOp{KV: &structs.TxnKVOp{Verb: api.KVCheckIndex, DirEnt: structs.DirEntry{Key: "z", RaftIndex: structs.RaftIndex{ModifyIndex: cidx}}}}
	ops := structs.TxnOps{mut, fail}
	if verifrt.Bool("failing-op-first") {
		ops = structs.TxnOps{fail, mut}
	}
	_, errs := s.TxnRW(idx, ops)
	name := []string{"delete-proxy", "delete-service", "delete-node", "check-critical", "rename-service", "node-address", "proxy-upstreams", "session-delete"}[kind]
	verifrt.Assert("C05.failed."+name+".reported-as-failed", len(errs) > 0)
	verifrt.Assert("C05.failed."+name+".no-table-content-changed", reflect.DeepEqual(before, vDeepState(s)))
	verifrt.Assert("C05.failed."+name+".no-stream-event", pub.n == 0)
	verifrt.Assert("C05.failed."+name+".no-watcher-woken", !vFired(ws))
	verifrt.Reached("end")
}

// A read-only transaction never modifies state: no table content, no index, no event, no watcher.
func VerifC05_ReadOnlyTxn() {
	s, pub := vC05PreState()
	before := vDeepState(s)
	ws := memdb.NewWatchSet()
	if _, _, err := s.CheckServiceNodes(ws, "web", nil, ""); err != nil {
		panic(err)
	}
	if _, _, err := s.KVSList(ws, "", nil); err != nil {
		panic(err)
	}
	cidx := verifrt.U64("cidx")
	key := []string{"k", "z", "nope"}[verifrt.Choice("key", 3)]
	var op *structs.TxnOp
	switch verifrt.Choice("verb", 8) {
	case 0:
		op = &structs.TxnOp{KV: &structs.TxnKVOp{Verb: api.KVGet, DirEnt: structs.DirEntry{Key: key}}}
	case 1:
		op = &structs.TxnOp{KV: &structs.TxnKVOp{Verb: api.KVGetTree, DirEnt: structs.DirEntry{Key: ""}}}
	case 2:
		op = &structs.TxnOp{KV: &structs.TxnKVOp{Verb: api.KVCheckIndex, DirEnt: structs.DirEntry{Key: key, RaftIndex: structs.RaftIndex{ModifyIndex: cidx}}}}
	case 3:
		op = &structs.TxnOp{KV: &structs.TxnKVOp{Verb: api.KVCheckSession, DirEnt: structs.DirEntry{Key: key, Session: vSessA}}}
	case 4:
		op = &structs.TxnOp{KV: &structs.TxnKVOp{Verb: api.KVCheckNotExists, DirEnt: structs.DirEntry{Key: key}}}
	case 5:
		op = &structs.TxnOp{Node: &structs.TxnNodeOp{Verb: api.NodeGet, Node: structs.Node{Node: "n1"}}}
	case 6:
		op = &structs.TxnOp{Service: &structs.TxnServiceOp{Verb: api.ServiceGet, Node: "n1", Service: structs.NodeService{ID: "p1"}}}
	default:
		op = &structs.TxnOp{Check: &structs.TxnCheckOp{Verb: api.CheckGet, Check: structs.HealthCheck{Node: "n1", CheckID: "c1"}}}
	}
	// (results of get verbs point at the stored objects, like every read of the state store: callers must not
	// modify them, and the harness does not)
	_, _ = s.TxnRO(structs.TxnOps{op, op})
	verifrt.Assert("C05.read-only.no-table-content-changed", reflect.DeepEqual(before, vDeepState(s)))
	verifrt.Assert("C05.read-only.no-stream-event", pub.n == 0)
	verifrt.Assert("C05.read-only.no-watcher-woken", !vFired(ws))
	verifrt.Reached("end")
}
