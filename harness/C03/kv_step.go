//go:build verif

package state

import (
	"bytes"

	"github.com/hashicorp/consul/agent/structs"
	"github.com/hashicorp/consul/internal/verifrt"
)

// C03: one KV operation from an arbitrary valid pre-state agrees with the
// sequential-map reference model (harness/state/kvmodel.go) in effect, reported
// outcome, table indexes, tombstones and what get/list return afterwards.
// The verbs are split over three harnesses so that independent dimensions of
// the pre-state do not multiply.

func vC03Bounds() (maxKV, keyLen int) {
	if verifrt.Thorough() {
		return 3, 2 // (3 keys of 3 bytes took more than 30 minutes per verb group)
	}
	return 2, 2
}

type vC03Pre struct {
	present               bool
	create, lock          uint64
	session               string
}

func vC03Before(m *vKVModel, key string) vC03Pre {
	if i := m.find(key); i >= 0 {
		return vC03Pre{true, m.kv[i].create, m.kv[i].lockIndex, m.kv[i].session}
	}
	return vC03Pre{}
}

// vC03After: the committed store equals the model; reading the operated key
// returns the model's entry.
func vC03After(s *Store, m *vKVModel, key string, pre vC03Pre) {
	verifrt.Assert("C03.post.kv-content", vKVAgree(s, m))
	verifrt.Assert("C03.post.tombstones", vTombsAgree(s, m))
	verifrt.Assert("C03.post.index-kvs", vIndex(s, tableKVs) == m.kvsIdx)
	verifrt.Assert("C03.post.index-tombstones", vIndex(s, tableTombstones) == m.tombIdx)
	j := m.find(key)
	if pre.present && j >= 0 {
		verifrt.Assert("C03.post.create-index-stable", m.kv[j].create == pre.create)
	}
	_, got, err := s.KVSGet(nil, key, nil)
	if j < 0 {
		verifrt.Assert("C03.get.absent", err == nil && got == nil)
	} else {
		e := m.kv[j]
		verifrt.Assert("C03.get.present", err == nil && got != nil && got.Key == key && bytes.Equal(got.Value, e.value) &&
			got.Flags == e.flags && got.Session == e.session && got.LockIndex == e.lockIndex &&
			got.CreateIndex == e.create && got.ModifyIndex == e.modify)
	}
}

func VerifC03_Write_Setup() any { return vNewStore() }

// set and check-and-set
func VerifC03_Write(st any) {
	s := st.(*Store)
	maxKV, keyLen := vC03Bounds()
	m, idx := vKVPreState(s, maxKV, keyLen, false, 2)
	verifrt.Assert("C03.pre.model-agrees", vKVAgree(s, m))
	key := vKey("op.key", keyLen)
	val := vVal("op.val")
	flags := verifrt.U64("op.flags")
	li := verifrt.U64("op.lockindex")
	// a plain write may carry any Session value; it must never become the holder
	opSess := vSessionChoice("op.session", 3)
	pre := vC03Before(m, key)
	if verifrt.Choice("verb", 2) == 0 {
		err := s.KVSSet(idx, &structs.DirEntry{Key: key, Value: val, Flags: flags, LockIndex: li, Session: opSess})
		m.set(idx, key, val, flags, li)
		verifrt.Assert("C03.set.no-error", err == nil)
		verifrt.Reached("set")
	} else {
		cidx := verifrt.U64("op.cidx")
		ok, err := s.KVSSetCAS(idx, &structs.DirEntry{Key: key, Value: val, Flags: flags, LockIndex: li, Session: opSess,
			RaftIndex: structs.RaftIndex{ModifyIndex: cidx}})
		want := m.cas(idx, cidx, key, val, flags, li)
		verifrt.Assert("C03.cas.no-error", err == nil)
		if want {
			verifrt.Assert("C03.cas.reports-success-when-matched", ok)
			verifrt.Reached("cas-applied")
		} else {
			verifrt.Assert("C03.cas.reports-failure-when-not-matched", !ok)
			verifrt.Reached("cas-rejected")
		}
	}
	vC03After(s, m, key, pre)
}

func VerifC03_Delete_Setup() any { return vNewStore() }

// delete, delete-cas, delete-tree
func VerifC03_Delete(st any) {
	s := st.(*Store)
	maxKV, keyLen := vC03Bounds()
	m, idx := vKVPreState(s, maxKV, keyLen, true, 2)
	verifrt.Assert("C03.pre.model-agrees", vKVAgree(s, m) && vTombsAgree(s, m))
	key := vKey("op.key", keyLen)
	pre := vC03Before(m, key)
	switch verifrt.Choice("verb", 3) {
	case 0:
		err := s.KVSDelete(idx, key, nil)
		m.del(idx, key)
		verifrt.Assert("C03.delete.no-error", err == nil)
		verifrt.Reached("delete")
	case 1:
		cidx := verifrt.U64("op.cidx")
		ok, err := s.KVSDeleteCAS(idx, cidx, key, nil)
		want := m.delCAS(idx, cidx, key)
		verifrt.Assert("C03.deletecas.no-error", err == nil)
		if want {
			verifrt.Assert("C03.deletecas.reports-success-when-matched", ok)
		} else {
			verifrt.Assert("C03.deletecas.reports-failure-when-not-matched", !ok)
		}
		verifrt.Reached("deletecas")
	case 2:
		prefix := key
		if verifrt.Bool("op.emptyprefix") {
			prefix = ""
		}
		err := s.KVSDeleteTree(idx, prefix, nil)
		m.delTree(idx, prefix)
		verifrt.Assert("C03.deletetree.no-error", err == nil)
		verifrt.Reached("deletetree")
	}
	vC03After(s, m, key, pre)
}

func VerifC03_Lock_Setup() any { return vNewStore() }

// lock and unlock
func VerifC03_Lock(st any) {
	s := st.(*Store)
	maxKV, keyLen := vC03Bounds()
	m, idx := vKVPreState(s, maxKV, keyLen, false, 3)
	key := vKey("op.key", keyLen)
	val := vVal("op.val")
	flags := verifrt.U64("op.flags")
	sess := vSessionChoice("op.session", 4)
	pre := vC03Before(m, key)
	if verifrt.Choice("verb", 2) == 0 {
		ok, err := s.KVSLock(idx, &structs.DirEntry{Key: key, Value: val, Flags: flags, Session: sess})
		want, wantErr := m.lock(idx, key, sess, val, flags)
		verifrt.Assert("C03.lock.error-iff-bad-session", (err != nil) == wantErr)
		if want {
			verifrt.Assert("C03.lock.acquired-when-free-or-held-by-caller", ok)
			j := m.find(key)
			if pre.session == "" {
				verifrt.Assert("C03.lock.fresh-acquire-increments", m.kv[j].lockIndex == pre.lock+1)
			} else {
				verifrt.Assert("C03.lock.reacquire-keeps-counter", m.kv[j].lockIndex == pre.lock)
			}
			verifrt.Reached("lock-acquired")
		} else {
			verifrt.Assert("C03.lock.refused-when-held-by-other", !ok)
			verifrt.Reached("lock-refused")
		}
	} else {
		ok, err := s.KVSUnlock(idx, &structs.DirEntry{Key: key, Value: val, Flags: flags, Session: sess})
		want, wantErr := m.unlock(idx, key, sess, val, flags)
		verifrt.Assert("C03.unlock.error-iff-no-session", (err != nil) == wantErr)
		if want {
			verifrt.Assert("C03.unlock.released-by-holder", ok)
			j := m.find(key)
			verifrt.Assert("C03.unlock.keeps-counter", m.kv[j].lockIndex == pre.lock)
			verifrt.Reached("unlock-released")
		} else {
			verifrt.Assert("C03.unlock.refused-for-non-holder", !ok)
			verifrt.Reached("unlock-refused")
		}
	}
	vC03After(s, m, key, pre)
}

func VerifC03_Read_Setup() any { return vNewStore() }

// get and list return exactly the map's content (no write involved); also
// tombstone reaping removes exactly the tombstones at or below the given index.
func VerifC03_Read(st any) {
	s := st.(*Store)
	maxKV, keyLen := vC03Bounds()
	m, idx := vKVPreState(s, maxKV, keyLen, true, 1)
	if verifrt.Bool("reap") {
		upTo := verifrt.U64("reap.index")
		err := s.ReapTombstones(idx, upTo)
		m.reap(upTo)
		verifrt.Assert("C03.reap.no-error", err == nil)
		verifrt.Assert("C03.reap.tombstones", vTombsAgree(s, m))
		verifrt.Assert("C03.reap.kv-untouched", vKVAgree(s, m))
		verifrt.Reached("reap")
	}
	plen := verifrt.Choice("list.prefixlen", keyLen+1)
	prefix := verifrt.StrN("list.prefix", plen)
	for i := 0; i < len(prefix); i++ {
		verifrt.Assume(prefix[i] != 0)
	}
	_, ents, err := s.KVSList(nil, prefix, nil)
	verifrt.Assert("C03.list.no-error", err == nil)
	want := 0
	for _, e := range m.kv {
		if verifrt.HasPrefix(e.key, prefix) {
			want++
		}
	}
	verifrt.Assert("C03.list.count", len(ents) == want)
	for i, d := range ents {
		j := m.find(d.Key)
		verifrt.Assert("C03.list.member", verifrt.HasPrefix(d.Key, prefix) && j >= 0)
		if j >= 0 {
			e := m.kv[j]
			verifrt.Assert("C03.list.entry-content", bytes.Equal(d.Value, e.value) && d.Flags == e.flags && d.LockIndex == e.lockIndex &&
				d.CreateIndex == e.create && d.ModifyIndex == e.modify)
		}
		if i > 0 {
			verifrt.Assert("C03.list.sorted", ents[i-1].Key < d.Key)
		}
	}
	verifrt.Reached("list")
}
