//go:build verif

package state

import (
	"bytes"

	"github.com/hashicorp/consul/agent/structs"
	"github.com/hashicorp/consul/internal/verifrt"
)

// C03: one KV operation (each of the seven store verbs) from an arbitrary valid
// pre-state agrees with the sequential-map reference model in effect, reported
// outcome, table indexes, tombstones and what get/list return afterwards.
func VerifC03_KVStep_Setup() any { return vNewStore() }

func VerifC03_KVStep(st any) {
	s := st.(*Store)
	maxKV, keyLen := 2, 2
	if verifrt.Thorough() {
		maxKV, keyLen = 3, 3
	}
	m, idx := vKVPreState(s, maxKV, keyLen, true)
	verifrt.Assert("C03.pre.model-agrees", vKVAgree(s, m) && vTombsAgree(s, m))

	verb := verifrt.Choice("verb", 7)
	key := vKey("op.key", keyLen)
	val := vVal("op.val")
	flags := verifrt.U64("op.flags")
	var preCreate uint64
	pi := m.find(key)
	if pi >= 0 {
		preCreate = m.kv[pi].create
	}
	preLock, preSess := uint64(0), ""
	if pi >= 0 {
		preLock, preSess = m.kv[pi].lockIndex, m.kv[pi].session
	}
	switch verb {
	case 0: // set
		li := verifrt.U64("op.lockindex")
		err := s.KVSSet(idx, &structs.DirEntry{Key: key, Value: val, Flags: flags, LockIndex: li})
		m.set(idx, key, val, flags, li)
		verifrt.Assert("C03.set.no-error", err == nil)
	case 1: // cas
		li := verifrt.U64("op.lockindex")
		cidx := verifrt.U64("op.cidx")
		ok, err := s.KVSSetCAS(idx, &structs.DirEntry{Key: key, Value: val, Flags: flags, LockIndex: li,
			RaftIndex: structs.RaftIndex{ModifyIndex: cidx}})
		want := m.cas(idx, cidx, key, val, flags, li)
		verifrt.Assert("C03.cas.result", err == nil && ok == want)
	case 2: // delete
		err := s.KVSDelete(idx, key, nil)
		m.del(idx, key)
		verifrt.Assert("C03.delete.no-error", err == nil)
	case 3: // delete-cas
		cidx := verifrt.U64("op.cidx")
		ok, err := s.KVSDeleteCAS(idx, cidx, key, nil)
		want := m.delCAS(idx, cidx, key)
		verifrt.Assert("C03.deletecas.result", err == nil && ok == want)
	case 4: // delete-tree (prefix may be empty)
		prefix := key
		if verifrt.Bool("op.emptyprefix") {
			prefix = ""
		}
		err := s.KVSDeleteTree(idx, prefix, nil)
		m.delTree(idx, prefix)
		verifrt.Assert("C03.deletetree.no-error", err == nil)
	case 5: // lock
		sess := vSessionChoice("op.session", 4)
		ok, err := s.KVSLock(idx, &structs.DirEntry{Key: key, Value: val, Flags: flags, Session: sess})
		want, wantErr := m.lock(idx, key, sess, val, flags)
		verifrt.Assert("C03.lock.result", (err != nil) == wantErr && ok == want)
		if want && !wantErr {
			j := m.find(key)
			if preSess == "" {
				verifrt.Assert("C03.lock.fresh-acquire-increments", m.kv[j].lockIndex == preLock+1)
			} else {
				verifrt.Assert("C03.lock.reacquire-keeps-counter", m.kv[j].lockIndex == preLock)
			}
		}
	case 6: // unlock
		sess := vSessionChoice("op.session", 4)
		ok, err := s.KVSUnlock(idx, &structs.DirEntry{Key: key, Value: val, Flags: flags, Session: sess})
		want, wantErr := m.unlock(idx, key, sess, val, flags)
		verifrt.Assert("C03.unlock.result", (err != nil) == wantErr && ok == want)
	}

	verifrt.Assert("C03.post.kv-content", vKVAgree(s, m))
	verifrt.Assert("C03.post.tombstones", vTombsAgree(s, m))
	verifrt.Assert("C03.post.index-kvs", vIndex(s, tableKVs) == m.kvsIdx)
	verifrt.Assert("C03.post.index-tombstones", vIndex(s, tableTombstones) == m.tombIdx)
	if pi >= 0 {
		if j := m.find(key); j >= 0 {
			verifrt.Assert("C03.post.create-index-stable", m.kv[j].create == preCreate)
		}
	}

	// reads: get of the operated key, list of an arbitrary short prefix
	_, got, err := s.KVSGet(nil, key, nil)
	j := m.find(key)
	if j < 0 {
		verifrt.Assert("C03.get.absent", err == nil && got == nil)
	} else {
		e := m.kv[j]
		verifrt.Assert("C03.get.present", err == nil && got != nil && got.Key == key && bytes.Equal(got.Value, e.value) &&
			got.Flags == e.flags && got.Session == e.session && got.LockIndex == e.lockIndex &&
			got.CreateIndex == e.create && got.ModifyIndex == e.modify)
	}
	prefix := ""
	if verifrt.Bool("list.nonempty") {
		prefix = verifrt.StrN("list.prefix", 1)
		verifrt.Assume(prefix[0] != 0)
	}
	_, ents, err := s.KVSList(nil, prefix, nil)
	verifrt.Assert("C03.list.no-error", err == nil)
	want := 0
	for _, e := range m.kv {
		if verifrt.HasPrefix(e.key, prefix) {
			want++
		}
	}
	verifrt.Assert("C03.list.count", len(ents) == want)
	for i, d := range ents {
		verifrt.Assert("C03.list.member", verifrt.HasPrefix(d.Key, prefix) && m.find(d.Key) >= 0)
		if i > 0 {
			verifrt.Assert("C03.list.sorted", ents[i-1].Key < d.Key)
		}
	}
	verifrt.Reached("end")
}
