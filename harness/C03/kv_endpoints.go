//go:build verif

package consul

import (
	"strings"

	"github.com/hashicorp/consul/agent/structs"
	"github.com/hashicorp/consul/internal/verifrt"
)

// C03 (read side, RPC layer): KVS.Get / KVS.List / KVS.ListKeys on a partial Server return exactly
// the content of the sequential map: the entry, the entries under the prefix in key order, and
// the keys under the prefix folded at the first separator after the prefix.

func vKVKey(tag string, maxLen int) string {
	n := 1 + verifrt.Choice(tag+".len", maxLen)
	k := verifrt.StrN(tag, n)
	for i := 0; i < n; i++ {
		// a letter and a separator character (thorough: two letters): enough to make prefixes, folds,
		// multi-byte separators and ties; the radix tree forks on every byte, so the alphabet is the bound
		if verifrt.Thorough() {
			verifrt.Assume(k[i] == 'a' || k[i] == 'b' || k[i] == '/')
		} else {
			verifrt.Assume(k[i] == 'a' || k[i] == '/')
		}
	}
	return k
}

type vKVRow struct {
	key          string
	val          byte
	flags        uint64
	create, modi uint64
}

func VerifC03_KVEndpoints_Setup() any {
	s, _ := vPartialServer(false)
	return s
}

func VerifC03_KVEndpoints(st any) {
	s := st.(*Server)
	store := s.fsm.State()
	maxKeys, keyLen := 2, 3
	if verifrt.Thorough() {
		keyLen = 2 // the third letter of the thorough alphabet is paid for with shorter keys
	}
	// the map, built through the store API at increasing symbolic indexes
	n := verifrt.Choice("nkeys", maxKeys+1)
	var rows []vKVRow
	idx := uint64(0)
	for i := 0; i < n; i++ {
		k := vKVKey("k"+string(rune('0'+i)), keyLen)
		for _, r := range rows {
			verifrt.Assume(r.key != k)
		}
		d := verifrt.U64("d" + string(rune('0'+i)))
		verifrt.Assume(d >= 1 && d < 1000)
		idx += d
		v := verifrt.U8("v" + string(rune('0'+i)))
		fl := verifrt.U64("f" + string(rune('0'+i)))
		if err := store.KVSSet(idx, &structs.DirEntry{Key: k, Value: []byte{v}, Flags: fl}); err != nil {
			panic(err)
		}
		rows = append(rows, vKVRow{k, v, fl, idx, idx})
	}
	// model order: ascending keys
	for i := 1; i < len(rows); i++ {
		for j := i; j > 0 && rows[j].key < rows[j-1].key; j-- {
			rows[j], rows[j-1] = rows[j-1], rows[j]
		}
	}
	k := &KVS{srv: s, logger: s.logger}
	switch verifrt.Choice("endpoint", 3) {
	case 0:
		q := vKVKey("q", keyLen)
		var reply structs.IndexedDirEntries
		err := k.Get(&structs.KeyRequest{Datacenter: "dc1", Key: q}, &reply)
		verifrt.Assert("C03.rpc.get.no-error", err == nil)
		var want *vKVRow
		for i := range rows {
			if rows[i].key == q {
				want = &rows[i]
			}
		}
		if want == nil {
			verifrt.Assert("C03.rpc.get.absent-key-gives-nothing", len(reply.Entries) == 0)
		} else {
			ok := len(reply.Entries) == 1
			if ok {
				e := reply.Entries[0]
				ok = e.Key == q && len(e.Value) == 1 && e.Value[0] == want.val && e.Flags == want.flags &&
					e.CreateIndex == want.create && e.ModifyIndex == want.modi && e.LockIndex == 0 && e.Session == ""
			}
			verifrt.Assert("C03.rpc.get.returns-the-entry", ok)
			verifrt.Assert("C03.rpc.get.index-is-modify-index", reply.Index == want.modi)
		}
		verifrt.Assert("C03.rpc.get.index-not-zero", reply.Index != 0)
		verifrt.Reached("get")
	case 1:
		p := ""
		if verifrt.Bool("prefix.nonempty") {
			p = vKVKey("p", 2)
		}
		var reply structs.IndexedDirEntries
		err := k.List(&structs.KeyRequest{Datacenter: "dc1", Key: p}, &reply)
		verifrt.Assert("C03.rpc.list.no-error", err == nil)
		var want []vKVRow
		for _, r := range rows {
			if strings.HasPrefix(r.key, p) {
				want = append(want, r)
			}
		}
		ok := len(reply.Entries) == len(want)
		maxIdx := uint64(0)
		if ok {
			for i, e := range reply.Entries {
				w := want[i]
				if !(e.Key == w.key && len(e.Value) == 1 && e.Value[0] == w.val && e.Flags == w.flags &&
					e.CreateIndex == w.create && e.ModifyIndex == w.modi) {
					ok = false
				}
				if w.modi > maxIdx {
					maxIdx = w.modi
				}
			}
		}
		verifrt.Assert("C03.rpc.list.exactly-the-entries-under-the-prefix-in-order", ok)
		if len(want) > 0 {
			verifrt.Assert("C03.rpc.list.index-is-newest-entry", reply.Index == maxIdx)
		}
		verifrt.Assert("C03.rpc.list.index-not-zero", reply.Index != 0)
		verifrt.Reached("list")
	case 2:
		p := ""
		if verifrt.Bool("prefix.nonempty") {
			p = vKVKey("p", 2)
		}
		sep := ""
		if verifrt.Bool("sep.nonempty") {
			sep = vKVKey("sep", 2)
		}
		var reply structs.IndexedKeyList
		err := k.ListKeys(&structs.KeyListRequest{Datacenter: "dc1", Prefix: p, Seperator: sep}, &reply)
		verifrt.Assert("C03.rpc.keys.no-error", err == nil)
		// reference: keys under the prefix, each cut after the first separator found behind the prefix,
		// adjacent duplicates folded
		var want []string
		for _, r := range rows {
			if !strings.HasPrefix(r.key, p) {
				continue
			}
			key := r.key
			if sep != "" {
				if i := strings.Index(key[len(p):], sep); i >= 0 {
					key = key[:len(p)+i+len(sep)]
				}
			}
			if len(want) == 0 || want[len(want)-1] != key {
				want = append(want, key)
			}
		}
		ok := len(reply.Keys) == len(want)
		if ok {
			for i := range want {
				if reply.Keys[i] != want[i] {
					ok = false
				}
			}
		}
		verifrt.Assert("C03.rpc.keys.exactly-the-folded-keys-under-the-prefix", ok)
		verifrt.Assert("C03.rpc.keys.index-not-zero", reply.Index != 0)
		verifrt.Reached("keys")
	}
}
