//go:build verif

package state

import (
	"github.com/hashicorp/consul/agent/structs"
	"github.com/hashicorp/consul/internal/verifrt"
	"github.com/hashicorp/consul/proto/private/pbpeering"
)

// C17, exporting side: a service is offered to a peer only if an
// exported-services entry names that peer as a consumer of it (by name, or
// by the wildcard for services that exist), and a registered service that is
// named for the peer is offered.

func VerifC17_ExportSide() {
	s := NewStateStore(nil)
	must := func(err error) {
		if err != nil {
			panic(err)
		}
	}
	const p1ID, p2ID = "11111111-1111-1111-1111-111111111111", "22222222-2222-2222-2222-222222222222"
	must(s.PeeringWrite(1, &pbpeering.PeeringWriteRequest{Peering: &pbpeering.Peering{ID: p1ID, Name: "p1"}}))
	must(s.PeeringWrite(2, &pbpeering.PeeringWriteRequest{Peering: &pbpeering.Peering{ID: p2ID, Name: "p2"}}))
	registered := map[string]bool{}
	for i, n := range []string{"a", "b"} {
		if verifrt.Bool("registered." + n) {
			must(s.EnsureRegistration(uint64(3+i), &structs.RegisterRequest{Node: "n1", Address: "10.0.0.1",
				Service: &structs.NodeService{ID: n, Service: n, Port: 80}}))
			registered[n] = true
		}
	}
	names := []string{"a", "b", "c", structs.WildcardSpecifier}
	type exp struct {
		name   string
		p1, p2 bool
	}
	var exps []exp
	entry := &structs.ExportedServicesConfigEntry{Name: "default"}
	n := 1 + verifrt.Choice("entries", 2)
	for i := 0; i < n; i++ {
		t := "e" + string(rune('0'+i))
		e := exp{name: names[verifrt.Choice(t+".name", 4)], p1: verifrt.Bool(t + ".p1"), p2: verifrt.Bool(t + ".p2")}
		if !e.p1 && !e.p2 {
			verifrt.Assume(false) // an exported service names at least one consumer
		}
		for _, prev := range exps {
			verifrt.Assume(prev.name != e.name)
		}
		exps = append(exps, e)
		es := structs.ExportedService{Name: e.name}
		if e.p1 {
			es.Consumers = append(es.Consumers, structs.ServiceConsumer{Peer: "p1"})
		}
		if e.p2 {
			es.Consumers = append(es.Consumers, structs.ServiceConsumer{Peer: "p2"})
		}
		entry.Services = append(entry.Services, es)
	}
	must(entry.Normalize())
	must(entry.Validate())
	must(s.EnsureConfigEntry(10, entry))

	for _, q := range []struct {
		id, name string
	}{{p1ID, "p1"}, {p2ID, "p2"}} {
		_, list, err := s.ExportedServicesForPeer(nil, q.id, "dc1")
		verifrt.Assert("C17.export.no-error", err == nil && list != nil)
		offered := map[string]bool{}
		for _, sn := range list.Services {
			offered[sn.Name] = true
		}
		for _, svc := range []string{"a", "b", "c"} {
			named := false
			for _, e := range exps {
				consumer := (q.name == "p1" && e.p1) || (q.name == "p2" && e.p2)
				if consumer && (e.name == svc || (e.name == structs.WildcardSpecifier && registered[svc])) {
					named = true
				}
			}
			verifrt.Assert("C17.export."+q.name+".offered-only-if-named-for-this-peer", !offered[svc] || named)
			verifrt.Assert("C17.export."+q.name+".named-service-is-offered", !named || offered[svc])
		}
		verifrt.Assert("C17.export."+q.name+".nothing-else-offered", len(offered) <= 3 && !offered[structs.WildcardSpecifier])
	}
	verifrt.Reached("end")
}
