//go:build verif

package peerstream

import (
	"time"

	"github.com/hashicorp/go-hclog"

	"github.com/hashicorp/consul/agent/consul/state"
	"github.com/hashicorp/consul/agent/structs"
	"github.com/hashicorp/consul/internal/verifrt"
	"github.com/hashicorp/consul/proto/private/pbpeerstream"
	"github.com/hashicorp/consul/proto/private/pbservice"
	"github.com/hashicorp/consul/types"
)

// C17: after an exported-service update from a peer, the imported catalog for
// (peer, service) equals the received snapshot; data of the local cluster and
// of other peers is never modified. The backend applies the replication
// requests to a real state store, as the FSM does.

type vPeerBackend struct {
	Backend
	store    *state.Store
	idx      uint64
	peer     string
	foreign  bool // a request for another peer or for local data was issued
}

func (b *vPeerBackend) CatalogRegister(req *structs.RegisterRequest) error {
	if req.PeerName != b.peer {
		b.foreign = true
	}
	b.idx++
	return b.store.EnsureRegistration(b.idx, req)
}

func (b *vPeerBackend) CatalogDeregister(req *structs.DeregisterRequest) error {
	if req.PeerName != b.peer {
		b.foreign = true
	}
	b.idx++
	switch {
	case req.ServiceID != "":
		return b.store.DeleteService(b.idx, req.Node, req.ServiceID, &req.EnterpriseMeta, req.PeerName)
	case req.CheckID != "":
		return b.store.DeleteCheck(b.idx, req.Node, req.CheckID, &req.EnterpriseMeta, req.PeerName)
	}
	return b.store.DeleteNode(b.idx, req.Node, &req.EnterpriseMeta, req.PeerName)
}

type vInst struct {
	node      string
	withID    bool
	port      int
	withCheck bool
	nodeCheck bool
}

func (i vInst) proto() *pbservice.CheckServiceNode {
	n := &pbservice.Node{Node: i.node, Address: "10.0.0." + i.node[len(i.node)-1:]}
	if i.withID {
		n.ID = "0000000" + i.node[len(i.node)-1:] + "-1111-2222-3333-444444444444"
	}
	csn := &pbservice.CheckServiceNode{
		Node:    n,
		Service: &pbservice.NodeService{ID: "api", Service: "api", Port: int32(i.port), Weights: &pbservice.Weights{Passing: 1, Warning: 1}},
	}
	if i.withCheck {
		csn.Checks = append(csn.Checks, &pbservice.HealthCheck{CheckID: "api:check", Name: "c", Status: "passing", Node: i.node, ServiceID: "api", ServiceName: "api"})
	}
	if i.nodeCheck {
		csn.Checks = append(csn.Checks, &pbservice.HealthCheck{CheckID: "node:check", Name: "nc", Status: "passing", Node: i.node})
	}
	return csn
}

func vSnapshot(tag string, ids bool) []vInst {
	var out []vInst
	for _, node := range []string{"n1", "n2"} {
		if verifrt.Bool(tag + "." + node) {
			out = append(out, vInst{node: node, withID: ids, port: 8080,
				withCheck: verifrt.Bool(tag + "." + node + ".check"), nodeCheck: verifrt.Bool(tag + "." + node + ".nodecheck")})
		}
	}
	return out
}

func VerifC17_ImportMirrorsSnapshot() {
	store := state.NewStateStore(nil)
	b := &vPeerBackend{store: store, idx: 100, peer: "p1"}
	srv := &Server{Config: Config{Backend: b, GetStore: func() StateStore { return store }, Logger: hclog.NewNullLogger()}}
	must := func(err error) {
		if err != nil {
			panic(err)
		}
	}
	// local data and another peer's data with colliding names
	// (same node name, same service id, same check ids as the imported ones)
	must(store.EnsureRegistration(1, &structs.RegisterRequest{Node: "n1", Address: "192.168.0.1",
		Service: &structs.NodeService{ID: "api", Service: "api", Port: 9090},
		Checks: structs.HealthChecks{{Node: "n1", CheckID: "node:check", Status: "passing"},
			{Node: "n1", CheckID: "api:check", ServiceID: "api", Status: "passing"}}}))
	must(store.EnsureRegistration(2, &structs.RegisterRequest{Node: "n1", Address: "172.16.0.1", PeerName: "p2",
		Service: &structs.NodeService{ID: "api", Service: "api", Port: 7070, PeerName: "p2"},
		Checks: structs.HealthChecks{{Node: "n1", CheckID: "node:check", Status: "passing", PeerName: "p2"}}}))
	// another imported service of the same peer may share node n1
	otherOnN1 := verifrt.Bool("other-service-on-n1")
	if otherOnN1 {
		must(store.EnsureRegistration(3, &structs.RegisterRequest{Node: "n1", Address: "10.0.0.1", PeerName: "p1",
			Service: &structs.NodeService{ID: "db", Service: "db", Port: 5432, PeerName: "p1"}}))
	}

	ids := verifrt.Bool("nodes-have-ids")
	sn := structs.NewServiceName("api", nil)
	first := vSnapshot("first", ids)
	second := vSnapshot("second", ids)
	for step, snap := range [][]vInst{first, second} {
		export := &pbpeerstream.ExportedService{}
		for _, in := range snap {
			export.Nodes = append(export.Nodes, in.proto())
		}
		err := srv.handleUpdateService("p1", "", sn, export)
		verifrt.Assert("C17.update-applies", err == nil)
		_ = step
	}

	// the imported catalog for (p1, api) equals the last snapshot
	_, got, err := store.CheckServiceNodes(nil, "api", nil, "p1")
	verifrt.Assert("C17.import-readable", err == nil)
	verifrt.Assert("C17.imported-instances-equal-snapshot", len(got) == len(second))
	for _, in := range second {
		found := false
		for _, csn := range got {
			if csn.Node.Node != in.node {
				continue
			}
			found = true
			var sc, nc bool
			for _, c := range csn.Checks {
				if c.CheckID == types.CheckID("api:check") {
					sc = true
				}
				if c.CheckID == types.CheckID("node:check") {
					nc = true
				}
			}
			verifrt.Assert("C17.imported-checks-equal-snapshot", sc == in.withCheck && nc == in.nodeCheck)
			verifrt.Assert("C17.imported-instance-content", csn.Service.Port == 8080 && csn.Service.PeerName == "p1" && csn.Node.PeerName == "p1")
		}
		verifrt.Assert("C17.snapshot-instance-imported", found)
	}
	// nodes no longer used by any imported service of this peer are removed
	for _, node := range []string{"n1", "n2"} {
		inSnap := false
		for _, in := range second {
			if in.node == node {
				inSnap = true
			}
		}
		_, nd, _ := store.GetNode(node, nil, "p1")
		keep := inSnap || (node == "n1" && otherOnN1)
		if !keep {
			verifrt.Assert("C17.unused-imported-node-removed", nd == nil)
			_, left, _ := store.NodeChecks(nil, node, nil, "p1")
			verifrt.Assert("C17.removed-imported-node-leaves-no-check-behind", len(left) == 0)
		} else if inSnap {
			verifrt.Assert("C17.used-imported-node-kept", nd != nil)
		}
	}
	// non-interference
	verifrt.Assert("C17.only-this-peers-data-is-written", !b.foreign)
	_, local, _ := store.CheckServiceNodes(nil, "api", nil, "")
	verifrt.Assert("C17.local-data-untouched", len(local) == 1 && local[0].Service.Port == 9090 && local[0].Node.Address == "192.168.0.1" && len(local[0].Checks) == 2)
	_, other, _ := store.CheckServiceNodes(nil, "api", nil, "p2")
	verifrt.Assert("C17.other-peer-data-untouched", len(other) == 1 && other[0].Service.Port == 7070 && len(other[0].Checks) == 1)
	if otherOnN1 {
		_, db, _ := store.CheckServiceNodes(nil, "db", nil, "p1")
		verifrt.Assert("C17.other-imported-service-untouched", len(db) == 1 && db[0].Node.Node == "n1")
	}
	verifrt.Reached("end")
}


// The peer's list of the services it still exports: imported services that are no longer on it disappear,
// the others stay, local data and other peers' data are untouched.
func VerifC17_ExportedList() {
	store := state.NewStateStore(nil)
	b := &vPeerBackend{store: store, idx: 100, peer: "p1"}
	srv := &Server{Config: Config{Backend: b, GetStore: func() StateStore { return store }, Logger: hclog.NewNullLogger()}}
	must := func(err error) {
		if err != nil {
			panic(err)
		}
	}
	must(store.EnsureRegistration(1, &structs.RegisterRequest{Node: "n1", Address: "192.168.0.1",
		Service: &structs.NodeService{ID: "api", Service: "api", Port: 9090}}))
	must(store.EnsureRegistration(2, &structs.RegisterRequest{Node: "n1", Address: "172.16.0.1", PeerName: "p2",
		Service: &structs.NodeService{ID: "api", Service: "api", Port: 7070, PeerName: "p2"}}))
	imported := map[string]bool{}
	for i, n := range []string{"api", "db"} {
		if verifrt.Bool("imported." + n) {
			must(store.EnsureRegistration(uint64(3+i), &structs.RegisterRequest{Node: "n1", Address: "10.0.0.1", PeerName: "p1",
				Service: &structs.NodeService{ID: n, Service: n, Port: 8080, PeerName: "p1"}}))
			imported[n] = true
		}
	}
	listed := map[string]bool{}
	var names []string
	switch verifrt.Choice("exported-list", 4) {
	case 0:
		names = []string{"api", "db"}
	case 1:
		names = []string{"api"}
	case 2:
		names = []string{"db"}
	}
	for _, n := range names {
		listed[n] = true
	}
	st := newMutableStatus(time.Now, true)
	err := srv.handleUpsertExportedServiceList(st, "p1", "", &pbpeerstream.ExportedServiceList{Services: names})
	verifrt.Assert("C17.exported-list.applies", err == nil)
	for _, n := range []string{"api", "db"} {
		_, now, _ := store.CheckServiceNodes(nil, n, nil, "p1")
		verifrt.Assert("C17.exported-list.import-present-iff-imported-and-still-listed", (len(now) == 1) == (imported[n] && listed[n]))
	}
	_, nd, _ := store.GetNode("n1", nil, "p1")
	verifrt.Assert("C17.exported-list.imported-node-kept-iff-still-used", (nd != nil) == ((imported["api"] && listed["api"]) || (imported["db"] && listed["db"])))
	verifrt.Assert("C17.exported-list.only-this-peers-data-is-written", !b.foreign)
	_, local, _ := store.CheckServiceNodes(nil, "api", nil, "")
	_, other, _ := store.CheckServiceNodes(nil, "api", nil, "p2")
	verifrt.Assert("C17.exported-list.local-and-other-peer-data-untouched", len(local) == 1 && len(other) == 1)
	verifrt.Reached("end")
}
