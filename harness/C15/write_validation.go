//go:build verif

package state

import (
	"github.com/hashicorp/consul/agent/consul/discoverychain"
	"github.com/hashicorp/consul/agent/netutil"
	"github.com/hashicorp/consul/agent/structs"
	"github.com/hashicorp/consul/internal/verifrt"
)

// C15: an accepted config entry write never leaves a stored discovery chain
// uncompilable (the invariant "every stored chain compiles" is preserved by
// every accepted write or delete), and a rejected write leaves the stored
// entries unchanged.

func vEnsure(s *Store, idx uint64, e structs.ConfigEntry) error {
	if err := e.Normalize(); err != nil {
		return err
	}
	if err := e.Validate(); err != nil {
		return err
	}
	return s.EnsureConfigEntry(idx, e)
}

func vCompiles(s *Store, name string) bool {
	_, entries, err := s.ReadDiscoveryChainConfigEntries(nil, name, nil)
	if err != nil {
		return false
	}
	_, err = discoverychain.Compile(discoverychain.CompileRequest{
		ServiceName: name, EvaluateInNamespace: "default", EvaluateInPartition: "default",
		EvaluateInDatacenter: "dc1", EvaluateInTrustDomain: "b6fc9da3-03d4-4b5a-9134-c045e9b20152.consul", Entries: entries,
	})
	return err == nil
}

func vProto(tag string) string {
	if verifrt.Bool(tag) {
		return "http"
	}
	return "tcp"
}

func VerifC15_WriteValidation() {
	netutil.GetAgentBindAddrFunc = netutil.GetMockGetAgentBindAddrFunc("0.0.0.0")
	s := NewStateStore(nil)
	idx := uint64(0)
	next := func() uint64 { idx++; return idx }
	try := func(e structs.ConfigEntry) {
		// setup writes that the store itself rejects are simply not part of the stored state
		_ = vEnsure(s, next(), e)
	}
	// a stored state: defaults for main and other, optionally a splitter, a router and a resolver
	try(&structs.ServiceConfigEntry{Kind: structs.ServiceDefaults, Name: "main", Protocol: vProto("main.http")})
	try(&structs.ServiceConfigEntry{Kind: structs.ServiceDefaults, Name: "other", Protocol: vProto("other.http")})
	if verifrt.Bool("resolver") {
		try(&structs.ServiceResolverConfigEntry{Kind: structs.ServiceResolver, Name: "other",
			Subsets: map[string]structs.ServiceResolverSubset{"v2": {Filter: "Service.Meta.version == v2"}}})
	}
	if verifrt.Bool("splitter") {
		try(&structs.ServiceSplitterConfigEntry{Kind: structs.ServiceSplitter, Name: "main",
			Splits: []structs.ServiceSplit{{Weight: 90}, {Weight: 10, Service: "other"}}})
	}
	if verifrt.Bool("router") {
		try(&structs.ServiceRouterConfigEntry{Kind: structs.ServiceRouter, Name: "main",
			Routes: []structs.ServiceRoute{{Match: &structs.ServiceRouteMatch{HTTP: &structs.ServiceRouteHTTPMatch{PathPrefix: "/v2"}},
				Destination: &structs.ServiceRouteDestination{Service: "other", ServiceSubset: "v2"}}}})
	}
	// main may also refer to other through its resolver only (redirect to a subset, or failover)
	switch verifrt.Choice("main.resolver", 3) {
	case 1:
		try(&structs.ServiceResolverConfigEntry{Kind: structs.ServiceResolver, Name: "main",
			Redirect: &structs.ServiceResolverRedirect{Service: "other", ServiceSubset: "v2"}})
	case 2:
		try(&structs.ServiceResolverConfigEntry{Kind: structs.ServiceResolver, Name: "main",
			Failover: map[string]structs.ServiceResolverFailover{"*": {Service: "other"}}})
	}
	verifrt.Assert("C15.stored-chains-compile-before", vCompiles(s, "main") && vCompiles(s, "other"))

	_, beforeDefaults, _ := s.ConfigEntry(nil, structs.ServiceDefaults, "other", nil)
	_, beforeResolver, _ := s.ConfigEntry(nil, structs.ServiceResolver, "other", nil)
	var err error
	op := verifrt.Choice("write", 6)
	switch op {
	case 0:
		err = vEnsure(s, next(), &structs.ServiceConfigEntry{Kind: structs.ServiceDefaults, Name: "other", Protocol: vProto("other.newproto")})
	case 1:
		err = s.DeleteConfigEntry(next(), structs.ServiceResolver, "other", nil)
	case 2:
		err = s.DeleteConfigEntry(next(), structs.ServiceDefaults, "other", nil)
	case 3:
		err = vEnsure(s, next(), &structs.ServiceResolverConfigEntry{Kind: structs.ServiceResolver, Name: "other",
			Redirect: &structs.ServiceResolverRedirect{Service: "main"}})
	case 4:
		// overwrite (not delete) the resolver with an empty one: the subset others refer to disappears
		err = vEnsure(s, next(), &structs.ServiceResolverConfigEntry{Kind: structs.ServiceResolver, Name: "other"})
	case 5:
		err = vEnsure(s, next(), &structs.ServiceResolverConfigEntry{Kind: structs.ServiceResolver, Name: "other",
			Subsets: map[string]structs.ServiceResolverSubset{"v3": {Filter: "Service.Meta.version == v3"}}})
	}
	name := []string{"change-protocol", "delete-resolver", "delete-defaults", "redirect-to-referrer", "blank-resolver", "other-subset-resolver"}[op]
	if err == nil {
		verifrt.Assert("C15."+name+".accepted-write-keeps-every-chain-compilable", vCompiles(s, "main") && vCompiles(s, "other"))
		verifrt.Reached("accepted")
	} else {
		_, afterDefaults, _ := s.ConfigEntry(nil, structs.ServiceDefaults, "other", nil)
		_, afterResolver, _ := s.ConfigEntry(nil, structs.ServiceResolver, "other", nil)
		verifrt.Assert("C15."+name+".rejected-write-leaves-entries-unchanged", afterDefaults == beforeDefaults && afterResolver == beforeResolver)
		verifrt.Assert("C15."+name+".rejected-write-keeps-chains-compilable", vCompiles(s, "main") && vCompiles(s, "other"))
		verifrt.Reached("rejected")
	}
}
