//go:build verif

package discoverychain

import (
	"github.com/hashicorp/consul/agent/structs"
	"github.com/hashicorp/consul/internal/verifrt"
)

// C15 (graph back-end): on arbitrary small graphs of router/splitter/resolver
// nodes, cycles are reported as errors rather than followed, adjacent
// splitters are flattened, and pruning leaves a closed graph in which every
// node is reachable from the start, whatever the map iteration order.

var vNodeNames = []string{"n0", "n1", "n2", "n3"}

func vGraph(n int) map[string]*structs.DiscoveryGraphNode {
	nodes := map[string]*structs.DiscoveryGraphNode{}
	for i := 0; i < n; i++ {
		name := vNodeNames[i]
		t := "node" + string(rune('0'+i))
		nd := &structs.DiscoveryGraphNode{Name: name}
		next := func(tag string) string { return vNodeNames[verifrt.Choice(tag, n)] }
		switch verifrt.Choice(t+".type", 3) {
		case 0:
			nd.Type = structs.DiscoveryGraphNodeTypeRouter
			nd.Routes = []*structs.DiscoveryRoute{{NextNode: next(t + ".r0")}}
			if verifrt.Bool(t + ".two") {
				nd.Routes = append(nd.Routes, &structs.DiscoveryRoute{NextNode: next(t + ".r1")})
			}
		case 1:
			nd.Type = structs.DiscoveryGraphNodeTypeSplitter
			nd.Splits = []*structs.DiscoverySplit{{Weight: 100, NextNode: next(t + ".s0"), Definition: &structs.ServiceSplit{Weight: 100}}}
			if verifrt.Bool(t + ".two") {
				nd.Splits[0].Weight = 50
				nd.Splits = append(nd.Splits, &structs.DiscoverySplit{Weight: 50, NextNode: next(t + ".s1"), Definition: &structs.ServiceSplit{Weight: 50}})
			}
		case 2:
			nd.Type = structs.DiscoveryGraphNodeTypeResolver
			nd.Resolver = &structs.DiscoveryResolver{Target: name}
		}
		nodes[name] = nd
	}
	return nodes
}

func vSuccessors(nd *structs.DiscoveryGraphNode) []string {
	var out []string
	for _, r := range nd.Routes {
		out = append(out, r.NextNode)
	}
	for _, s := range nd.Splits {
		out = append(out, s.NextNode)
	}
	return out
}

// vHasCycle: is a cycle reachable from start (reference depth-first search).
func vHasCycle(nodes map[string]*structs.DiscoveryGraphNode, cur string, onPath map[string]bool) bool {
	if onPath[cur] {
		return true
	}
	onPath[cur] = true
	for _, nx := range vSuccessors(nodes[cur]) {
		if vHasCycle(nodes, nx, onPath) {
			return true
		}
	}
	onPath[cur] = false
	return false
}

func vReach(nodes map[string]*structs.DiscoveryGraphNode, cur string, seen map[string]bool) {
	if seen[cur] || nodes[cur] == nil {
		return
	}
	seen[cur] = true
	for _, nx := range vSuccessors(nodes[cur]) {
		vReach(nodes, nx, seen)
	}
}

func VerifC15_GraphBackend() {
	n := 3
	if verifrt.Thorough() {
		n = 4
	}
	c := &compiler{nodes: vGraph(n), startNode: "n0"}
	// assembleChain only records nodes it reaches from the start node
	all := map[string]bool{}
	vReach(c.nodes, "n0", all)
	verifrt.Assume(len(all) == len(c.nodes))
	cyclic := vHasCycle(c.nodes, "n0", map[string]bool{})
	err := c.detectCircularReferences()
	verifrt.Assert("C15.graph.cycle-reported-iff-reachable-cycle", (err != nil) == cyclic)
	if cyclic {
		verifrt.Reached("cycle")
		return
	}
	verifrt.PermuteMaps(true)
	verifrt.Assert("C15.graph.flatten-terminates-without-error", c.flattenAdjacentSplitterNodes() == nil)
	verifrt.Assert("C15.graph.prune-without-error", c.removeUnusedNodes() == nil)
	verifrt.PermuteMaps(false)
	seen := map[string]bool{}
	vReach(c.nodes, "n0", seen)
	for name, nd := range c.nodes {
		verifrt.Assert("C15.graph.every-retained-node-is-reachable", seen[name])
		for _, nx := range vSuccessors(nd) {
			verifrt.Assert("C15.graph.every-referenced-node-exists", c.nodes[nx] != nil)
		}
		if nd.Type == structs.DiscoveryGraphNodeTypeSplitter {
			for _, sp := range nd.Splits {
				verifrt.Assert("C15.graph.no-splitter-to-splitter-edge", c.nodes[sp.NextNode].Type != structs.DiscoveryGraphNodeTypeSplitter)
			}
		}
	}
	verifrt.Assert("C15.graph.start-retained", c.nodes["n0"] != nil)
	verifrt.Reached("acyclic")
}
