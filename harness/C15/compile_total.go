//go:build verif

package discoverychain

import (
	"errors"
	"reflect"

	"github.com/hashicorp/consul/agent/configentry"
	"github.com/hashicorp/consul/agent/structs"
	"github.com/hashicorp/consul/internal/verifrt"
)

// C15 (whole compiler, arbitrary entry sets): Compile is total. For entry sets
// that no store validation has filtered - two levels of splitters over
// resolvers with redirects, failovers, subsets and mixed protocols - it either
// returns a ConfigEntryGraphError or a closed chain (every referenced node and
// target exists, the start node exists); it never panics and never follows a
// redirect or failover cycle.

func vClosed(c *structs.CompiledDiscoveryChain) bool {
	if c == nil || c.Nodes[c.StartNode] == nil {
		return false
	}
	for _, nd := range c.Nodes {
		if nd == nil {
			return false
		}
		for _, next := range vSuccessors(nd) {
			if c.Nodes[next] == nil {
				return false
			}
		}
		if nd.Type == structs.DiscoveryGraphNodeTypeResolver {
			if nd.Resolver == nil || c.Targets[nd.Resolver.Target] == nil {
				return false
			}
			if f := nd.Resolver.Failover; f != nil {
				for _, t := range f.Targets {
					if c.Targets[t] == nil {
						return false
					}
				}
			}
		}
	}
	return true
}

func VerifC15_CompileTotal() {
	set := configentry.NewDiscoveryChainSet()
	add := func(e structs.ConfigEntry) {
		if err := e.Normalize(); err != nil {
			panic(err)
		}
		set.AddEntries(e)
	}
	xProto := "http"
	if verifrt.Bool("x.tcp") {
		xProto = "tcp"
	}
	for _, n := range []string{"main", "other", "w", "y"} {
		add(&structs.ServiceConfigEntry{Kind: structs.ServiceDefaults, Name: n, Protocol: "http"})
	}
	add(&structs.ServiceConfigEntry{Kind: structs.ServiceDefaults, Name: "x", Protocol: xProto})
	// main splits between other and w, in either order
	splits := []structs.ServiceSplit{{Weight: 50, Service: "other"}, {Weight: 50, Service: "w"}}
	if verifrt.Bool("main.w-first") {
		splits[0], splits[1] = splits[1], splits[0]
	}
	add(&structs.ServiceSplitterConfigEntry{Kind: structs.ServiceSplitter, Name: "main", Splits: splits})
	// other may itself be a splitter (to x, possibly to one of its subsets, possibly back to main)
	switch verifrt.Choice("other", 4) {
	case 1:
		add(&structs.ServiceSplitterConfigEntry{Kind: structs.ServiceSplitter, Name: "other", Splits: []structs.ServiceSplit{{Weight: 100, Service: "x"}}})
	case 2:
		add(&structs.ServiceSplitterConfigEntry{Kind: structs.ServiceSplitter, Name: "other", Splits: []structs.ServiceSplit{{Weight: 100, Service: "x", ServiceSubset: "v2"}}})
	case 3:
		add(&structs.ServiceSplitterConfigEntry{Kind: structs.ServiceSplitter, Name: "other", Splits: []structs.ServiceSplit{{Weight: 60, Service: "x"}, {Weight: 40, Service: "main"}}})
	}
	// resolvers of x and y: none, redirect, failover, subsets
	switch verifrt.Choice("x.resolver", 5) {
	case 1:
		add(&structs.ServiceResolverConfigEntry{Kind: structs.ServiceResolver, Name: "x", Redirect: &structs.ServiceResolverRedirect{Service: "y"}})
	case 2:
		add(&structs.ServiceResolverConfigEntry{Kind: structs.ServiceResolver, Name: "x",
			Subsets: map[string]structs.ServiceResolverSubset{"v1": {Filter: "Service.Meta.version == v1"}}})
	case 3:
		add(&structs.ServiceResolverConfigEntry{Kind: structs.ServiceResolver, Name: "x",
			Failover: map[string]structs.ServiceResolverFailover{"*": {Service: "y"}}})
	case 4: // a failover section for the default subset and one for every subset
		add(&structs.ServiceResolverConfigEntry{Kind: structs.ServiceResolver, Name: "x", DefaultSubset: "v1",
			Subsets:  map[string]structs.ServiceResolverSubset{"v1": {Filter: "Service.Meta.version == v1"}},
			Failover: map[string]structs.ServiceResolverFailover{"v1": {Service: "y"}, "*": {Service: "w"}}})
	}
	switch verifrt.Choice("y.resolver", 3) {
	case 1:
		add(&structs.ServiceResolverConfigEntry{Kind: structs.ServiceResolver, Name: "y", Redirect: &structs.ServiceResolverRedirect{Service: "x"}})
	case 2:
		add(&structs.ServiceResolverConfigEntry{Kind: structs.ServiceResolver, Name: "y",
			Failover: map[string]structs.ServiceResolverFailover{"*": {Service: "x"}}})
	}

	req := CompileRequest{ServiceName: "main", EvaluateInNamespace: "default", EvaluateInPartition: "default",
		EvaluateInDatacenter: "dc1", EvaluateInTrustDomain: "b6fc9da3-03d4-4b5a-9134-c045e9b20152.consul", Entries: set}
	ref, rerr := Compile(req)
	verifrt.PermuteMaps(true)
	chain, err := Compile(req)
	verifrt.PermuteMaps(false)
	// the result does not depend on the order in which maps are visited
	verifrt.Assert("C15.compile.same-outcome-in-every-map-order", (err == nil) == (rerr == nil))
	if err == nil && rerr == nil {
		verifrt.Assert("C15.compile.same-chain-in-every-map-order", reflect.DeepEqual(ref, chain))
	}
	if err != nil {
		var ge *structs.ConfigEntryGraphError
		verifrt.Assert("C15.compile.failure-is-a-graph-error", errors.As(err, &ge))
		verifrt.Reached("rejected")
		return
	}
	verifrt.Assert("C15.compile.accepted-chain-is-closed", vClosed(chain))
	verifrt.Reached("compiled")
}
